//! SimNet: an in-memory byte-stream network owned by the simulator. Every read / write decision
//! (how many bytes, Pending or not, how long to wait in virtual time) is drawn from a keyed PRNG
//! stream of that connection and direction; faults (EOF, reset, stall) fire at byte offsets.

use std::collections::VecDeque;
use std::future::Future;
use std::io;
use std::pin::Pin;
use std::sync::Arc;
use std::task::{Context, Poll, Waker};
use std::time::Duration;

use parking_lot::Mutex;
use serde::{Deserialize, Serialize};
use tokio::io::{AsyncRead, AsyncWrite, ReadBuf};

use crate::rng::Rng;

/// Time pump. tokio's paused clock only advances when the runtime is idle. Real peers sometimes
/// busy-poll (h2 re-wakes itself while a shutdown flush is pending, for instance); in real time
/// that merely burns CPU until the other side's timer fires, under a paused clock it would stop
/// time for good. So stream operations are counted, and every `PUMP_EVERY` operations during
/// which virtual time did not move the pump task advances the clock by one millisecond.
/// Operation counts are deterministic, so replay is unaffected.
struct PumpState {
    ops: u64,
    since_advance: u64,
    last_now: Option<tokio::time::Instant>,
    waker: Option<Waker>,
    due: bool,
    pumped_ms: u64,
    runaway: Option<std::sync::Arc<tokio::sync::Notify>>,
}

/// more than this much virtual time advanced only because peers were busy-polling: give up
pub const RUNAWAY_MS: u64 = 3000;

const PUMP_EVERY: u64 = 3000;

thread_local! {
    static PUMP: std::cell::RefCell<PumpState> = const {
        std::cell::RefCell::new(PumpState { ops: 0, since_advance: 0, last_now: None, waker: None, due: false, pumped_ms: 0, runaway: None })
    };
}

pub fn reset_ops() {
    let _ = take_spin();
    PUMP.with(|p| {
        let mut p = p.borrow_mut();
        p.ops = 0;
        p.since_advance = 0;
        p.last_now = None;
        p.waker = None;
        p.due = false;
        p.pumped_ms = 0;
        p.runaway = None;
    });
}

/// Notified once when the run is declared a runaway (see RUNAWAY_MS).
pub fn runaway_signal() -> std::sync::Arc<tokio::sync::Notify> {
    PUMP.with(|p| {
        let mut p = p.borrow_mut();
        p.runaway.get_or_insert_with(|| std::sync::Arc::new(tokio::sync::Notify::new())).clone()
    })
}

pub fn is_runaway() -> bool {
    pumped_ms() >= RUNAWAY_MS
}

pub fn ops() -> u64 {
    PUMP.with(|p| p.borrow().ops)
}

thread_local! {
    static MOVED: std::cell::Cell<u64> = const { std::cell::Cell::new(0) };
}

/// Bytes accepted by or delivered from any SimStream on this thread so far: the measure of
/// progress (operation counts also move when somebody merely re-polls).
pub fn moved() -> u64 {
    MOVED.with(|m| m.get())
}

fn count_moved(n: usize) {
    MOVED.with(|m| m.set(m.get() + n as u64));
}

thread_local! {
    static SPIN: std::cell::RefCell<Option<String>> = const { std::cell::RefCell::new(None) };
}

/// A reader that keeps reading a stream which has reported end-of-stream, thousands of times in a
/// row, is spinning (nothing can ever arrive). The stream then fails the read - which ends the
/// loop - and the scenario reports the spin; without this the run would never return.
pub const EOF_SPIN_LIMIT: u64 = 20_000;

pub fn take_spin() -> Option<String> {
    SPIN.with(|s| s.borrow_mut().take())
}

fn note_spin(stream: u32, n: u64) {
    SPIN.with(|s| {
        let mut s = s.borrow_mut();
        if s.is_none() {
            *s = Some(format!("stream {} was read {} times in a row after it had reported end-of-stream", stream, n));
        }
    });
}

/// A task that is polled this many times in a row while no SimStream operation happens and the
/// virtual clock stands still is waking itself in a loop: nothing it waits for can change.
pub const TASK_SPIN_LIMIT: u32 = 100_000;

/// Wraps a task spawned by the code under test. Counts consecutive polls without any SimStream
/// operation and without virtual time passing; at TASK_SPIN_LIMIT the spin is recorded (the
/// scenario reports it through `take_spin`) and the task is parked for good, so that the rest of
/// the run - and its oracles - can finish. (A paused tokio clock only advances when the runtime
/// is idle, which a self-waking task prevents: without this the run would never return.)
pub struct SpinGuard<F> {
    inner: Option<std::pin::Pin<Box<F>>>,
    last: (u64, Option<tokio::time::Instant>),
    streak: u32,
}

impl<F> SpinGuard<F> {
    pub fn new(f: F) -> Self {
        SpinGuard { inner: Some(Box::pin(f)), last: (u64::MAX, None), streak: 0 }
    }
}

impl<F: std::future::Future> std::future::Future for SpinGuard<F> {
    type Output = ();
    fn poll(mut self: Pin<&mut Self>, cx: &mut Context<'_>) -> Poll<()> {
        let this = &mut *self;
        let Some(f) = this.inner.as_mut() else {
            return Poll::Pending; // parked
        };
        let snap = (ops(), Some(tokio::time::Instant::now()));
        if snap == this.last {
            this.streak += 1;
            if this.streak >= TASK_SPIN_LIMIT {
                SPIN.with(|s| {
                    let mut s = s.borrow_mut();
                    if s.is_none() {
                        *s = Some(format!("a task spawned by the library was polled {} times in a row while no stream operation happened and no time passed (it wakes itself in a loop)", this.streak));
                    }
                });
                // dropping the future here would close its connection and hide the hang from the
                // oracle that looks for it; keep it, never poll it again
                std::mem::forget(this.inner.take());
                return Poll::Pending;
            }
        } else {
            this.last = snap;
            this.streak = 0;
        }
        match f.as_mut().poll(cx) {
            Poll::Ready(_) => {
                this.inner = None;
                Poll::Ready(())
            }
            Poll::Pending => Poll::Pending,
        }
    }
}

pub fn pumped_ms() -> u64 {
    PUMP.with(|p| p.borrow().pumped_ms)
}

fn count_op() {
    PUMP.with(|p| {
        let mut p = p.borrow_mut();
        p.ops += 1;
        let now = tokio::time::Instant::now();
        if p.last_now != Some(now) {
            p.last_now = Some(now);
            p.since_advance = 0;
        }
        p.since_advance += 1;
        if p.since_advance >= PUMP_EVERY {
            p.since_advance = 0;
            p.due = true;
            if let Some(w) = &p.waker {
                w.wake_by_ref();
            }
        }
        if p.ops % 4_000_000 == 0 && std::env::var("VERIF_DBG_BT").is_ok() {
            eprintln!("=== {} stream operations in this run; poller:\n{}", p.ops, std::backtrace::Backtrace::force_capture());
        }
    });
}

/// Run as a local task for the duration of a simulation that uses SimStream.
pub async fn time_pump() {
    loop {
        std::future::poll_fn(|cx| {
            PUMP.with(|p| {
                let mut p = p.borrow_mut();
                if p.due {
                    p.due = false;
                    p.pumped_ms += 1;
                    if p.pumped_ms == RUNAWAY_MS {
                        if let Some(n) = &p.runaway {
                            n.notify_one();
                        }
                    }
                    Poll::Ready(())
                } else {
                    p.waker = Some(cx.waker().clone());
                    Poll::Pending
                }
            })
        })
        .await;
        tokio::time::advance(Duration::from_millis(1)).await;
    }
}

#[derive(Clone, Copy, Debug, Serialize, Deserialize, PartialEq, Eq)]
pub enum Chunk {
    Whole,
    One,
    Small,
    Random,
}

#[derive(Clone, Debug, Serialize, Deserialize)]
pub struct IoMode {
    pub chunk: Chunk,
    /// probability (percent) that a poll answers Pending with an immediate self-wake
    pub pending_pct: u8,
    /// probability (percent) that a poll first waits a drawn virtual delay
    pub delay_pct: u8,
    pub max_delay_ms: u64,
    pub vectored: bool,
    pub cap: usize,
    /// the reader initialises the whole unfilled part of the caller's buffer before it fills a
    /// (possibly shorter) part of it - the `initialize_unfilled(); advance(n)` idiom of many
    /// AsyncRead implementations; legal, and visible to adapters that confuse the two cursors
    #[serde(default)]
    pub overinit: bool,
    /// the writer's side holds what it is given (up to 16 KiB) until it is flushed - a buffered
    /// transport (BufWriter around the socket, a record layer): an adapter that swallows
    /// `poll_flush` leaves the peer without the bytes. Never drawn by `draw()`: only for
    /// endpoints whose user is known to flush.
    #[serde(default)]
    pub lazy_flush: bool,
}

impl IoMode {
    pub fn plain() -> Self {
        IoMode { chunk: Chunk::Whole, pending_pct: 0, delay_pct: 0, max_delay_ms: 0, vectored: true, cap: 64 * 1024, overinit: false, lazy_flush: false }
    }
    pub fn draw(r: &mut Rng) -> Self {
        IoMode {
            chunk: *r.weighted(&[(3, Chunk::Whole), (2, Chunk::One), (3, Chunk::Small), (3, Chunk::Random)]),
            pending_pct: *r.pick(&[0u8, 0, 10, 30, 60]),
            delay_pct: *r.pick(&[0u8, 0, 0, 10, 30]),
            max_delay_ms: *r.pick(&[1u64, 5, 50]),
            vectored: r.bool(),
            cap: *r.pick(&[1usize, 2, 7, 64, 1024, 65536]),
            overinit: r.chance(1, 3),
            lazy_flush: false,
        }
    }
    /// For connections that carry HTTP/2 or TLS: both need room in both directions at once
    /// (control frames, window updates, handshake flights). With a socket buffer of a few bytes
    /// two peers that are both blocked on writing deadlock, which is their documented behaviour
    /// and not what is being tested.
    pub fn draw_roomy(r: &mut Rng) -> Self {
        let mut m = Self::draw(r);
        m.cap = *r.pick(&[512usize, 4096, 16384, 65536]);
        m
    }
    pub fn is_plain(&self) -> bool {
        self.chunk == Chunk::Whole && self.pending_pct == 0 && self.delay_pct == 0
    }
}

#[derive(Clone, Copy, Debug, Serialize, Deserialize, PartialEq, Eq)]
pub enum FaultKind {
    /// writer side closes cleanly after `at` bytes: reader drains, then sees EOF; later writes fail
    Eof,
    /// reader sees ConnectionReset after `at` bytes were written; writers see BrokenPipe
    Reset,
    /// bytes after `at` are accepted but never delivered, and no EOF follows
    Stall,
}

#[derive(Clone, Debug, Serialize, Deserialize)]
pub struct PipeFault {
    pub kind: FaultKind,
    pub at: u64,
}

#[derive(Debug, Default, Clone)]
pub struct PipeStats {
    pub short_reads: u64,
    pub short_writes: u64,
    pub pending_injected: u64,
    pub delays_injected: u64,
    pub delays_abandoned: u64,
    pub faults_fired: Vec<FaultKind>,
    pub tiny_buffer_full: u64,
    pub discarded_after_peer_close: u64,
    pub vectored_writes: u64,
}

pub struct Pipe {
    buf: VecDeque<u8>,
    mode: IoMode,
    eof: bool,
    reset: bool,
    stalled: bool,
    reader_gone: bool,
    eof_reads: u64,
    read_waker: Option<Waker>,
    write_waker: Option<Waker>,
    rng_r: Rng,
    rng_w: Rng,
    pub written: u64,
    pub read: u64,
    fault: Option<PipeFault>,
    /// first bytes written into this pipe (what the peer sees on the wire)
    pub head: Vec<u8>,
    pub head_limit: usize,
    pub stats: PipeStats,
    pub log: crate::rng::Digest,
}

pub type PipeRef = Arc<Mutex<Pipe>>;

impl Pipe {
    pub fn new(seed: u64, key: &str, mode: IoMode, fault: Option<PipeFault>) -> PipeRef {
        Arc::new(Mutex::new(Pipe {
            buf: VecDeque::new(),
            eof: false,
            reset: false,
            stalled: false,
            reader_gone: false,
            eof_reads: 0,
            read_waker: None,
            write_waker: None,
            rng_r: Rng::keyed(seed, &format!("{}/r", key)),
            rng_w: Rng::keyed(seed, &format!("{}/w", key)),
            written: 0,
            read: 0,
            fault,
            head: Vec::new(),
            head_limit: 64,
            stats: PipeStats::default(),
            log: crate::rng::Digest::default(),
            mode,
        }))
    }

    fn chunk(mode: &IoMode, rng: &mut Rng, avail: usize) -> usize {
        if avail == 0 {
            return 0;
        }
        match mode.chunk {
            Chunk::Whole => avail,
            Chunk::One => 1,
            Chunk::Small => (rng.range(1, 7) as usize).min(avail),
            Chunk::Random => {
                if rng.chance(1, 3) {
                    avail
                } else {
                    (rng.range(1, avail as u64) as usize).max(1)
                }
            }
        }
    }

    fn wake_reader(&mut self) {
        if let Some(w) = self.read_waker.take() {
            w.wake();
        }
    }
    fn wake_writer(&mut self) {
        if let Some(w) = self.write_waker.take() {
            w.wake();
        }
    }

    /// Force a fault right now (used for time-triggered faults).
    pub fn inject(&mut self, kind: FaultKind) {
        match kind {
            FaultKind::Eof => self.eof = true,
            FaultKind::Reset => {
                self.reset = true;
                self.buf.clear();
            }
            FaultKind::Stall => self.stalled = true,
        }
        self.stats.faults_fired.push(kind);
        self.wake_reader();
        self.wake_writer();
    }

    pub fn is_reset(&self) -> bool {
        self.reset
    }
    pub fn is_eof(&self) -> bool {
        self.eof
    }
    pub fn buffered(&self) -> usize {
        self.buf.len()
    }
}

#[derive(Debug, Clone, Copy, PartialEq, Eq)]
pub struct SimAddr(pub u32);

impl std::fmt::Display for SimAddr {
    fn fmt(&self, f: &mut std::fmt::Formatter<'_>) -> std::fmt::Result {
        write!(f, "sim:{}", self.0)
    }
}

pub struct SimStream {
    pub id: u32,
    pub rx: PipeRef,
    pub tx: PipeRef,
    delay_r: Option<(Pin<Box<tokio::time::Sleep>>, u32)>,
    delay_w: Option<(Pin<Box<tokio::time::Sleep>>, u32)>,
    /// bytes accepted but not yet handed to the pipe (mode.lazy_flush)
    wbuf: Vec<u8>,
}

const LAZY_CAP: usize = 16 * 1024;

impl std::fmt::Debug for SimStream {
    fn fmt(&self, f: &mut std::fmt::Formatter<'_>) -> std::fmt::Result {
        write!(f, "SimStream({})", self.id)
    }
}

/// A connected pair: (a, b); a.tx == b.rx and a.rx == b.tx.
pub fn pair(seed: u64, id: u32, a2b: IoMode, b2a: IoMode, fault_a2b: Option<PipeFault>, fault_b2a: Option<PipeFault>) -> (SimStream, SimStream) {
    let p_ab = Pipe::new(seed, &format!("net/conn{}/a2b", id), a2b, fault_a2b);
    let p_ba = Pipe::new(seed, &format!("net/conn{}/b2a", id), b2a, fault_b2a);
    (
        SimStream { id, rx: p_ba.clone(), tx: p_ab.clone(), delay_r: None, delay_w: None, wbuf: vec![] },
        SimStream { id, rx: p_ab, tx: p_ba, delay_r: None, delay_w: None, wbuf: vec![] },
    )
}

impl hyperdriver::info::HasConnectionInfo for SimStream {
    type Addr = SimAddr;
    fn info(&self) -> hyperdriver::info::ConnectionInfo<SimAddr> {
        hyperdriver::info::ConnectionInfo { local_addr: SimAddr(0), remote_addr: SimAddr(self.id) }
    }
}

impl hyperdriver::client::pool::PoolableStream for SimStream {
    fn can_share(&self) -> bool {
        false
    }
}

/// Returns true when the poll must answer Pending now.
///
/// A virtual delay is abandoned when the stream is polled again and again while it is pending:
/// the paused clock only advances when the runtime is idle, so a peer that busy-polls (h2 wakes
/// itself "one more time" during shutdown, for instance) would otherwise wait forever for time
/// that cannot pass. Poll counts are deterministic, so this does not affect replay.
fn inject_wait(
    slot: &mut Option<(Pin<Box<tokio::time::Sleep>>, u32)>,
    cx: &mut Context<'_>,
    mode: &IoMode,
    rng: &mut Rng,
    stats: &mut PipeStats,
) -> bool {
    if let Some((s, polls)) = slot.as_mut() {
        if s.as_mut().poll(cx).is_pending() {
            *polls += 1;
            if *polls < 32 {
                return true;
            }
            stats.delays_abandoned += 1;
        }
        *slot = None;
        return false; // the wait is over: make progress on this poll
    }
    if mode.delay_pct > 0 && rng.chance(mode.delay_pct as u64, 100) {
        let d = rng.range(1, mode.max_delay_ms.max(1));
        let mut s = Box::pin(tokio::time::sleep(Duration::from_millis(d)));
        stats.delays_injected += 1;
        if s.as_mut().poll(cx).is_pending() {
            *slot = Some((s, 0));
            return true;
        }
        return false;
    }
    if mode.pending_pct > 0 && rng.chance(mode.pending_pct as u64, 100) {
        stats.pending_injected += 1;
        cx.waker().wake_by_ref();
        return true;
    }
    false
}

impl AsyncRead for SimStream {
    fn poll_read(mut self: Pin<&mut Self>, cx: &mut Context<'_>, dst: &mut ReadBuf<'_>) -> Poll<io::Result<()>> {
        count_op();
        let this = &mut *self;
        let mut p = this.rx.lock();
        let p = &mut *p;
        if dst.remaining() == 0 {
            return Poll::Ready(Ok(()));
        }
        if p.reset {
            return Poll::Ready(Err(io::ErrorKind::ConnectionReset.into()));
        }
        if p.mode.overinit && (!p.buf.is_empty() || p.eof) && std::env::var("VERIF_NO_OVERINIT").is_err() {
            let _ = dst.initialize_unfilled();
        }
        if p.buf.is_empty() {
            if p.eof {
                p.eof_reads += 1;
                if p.eof_reads > EOF_SPIN_LIMIT {
                    note_spin(this.id, p.eof_reads);
                    return Poll::Ready(Err(io::Error::new(io::ErrorKind::Other, "simulated stream: read in a loop after end-of-stream")));
                }
                if p.eof_reads < 4 {
                    p.log.push(0xE0F);
                }
                return Poll::Ready(Ok(()));
            }
            p.read_waker = Some(cx.waker().clone());
            return Poll::Pending;
        }
        if inject_wait(&mut this.delay_r, cx, &p.mode, &mut p.rng_r, &mut p.stats) {
            return Poll::Pending;
        }
        let avail = p.buf.len().min(dst.remaining());
        let k = Pipe::chunk(&p.mode, &mut p.rng_r, avail);
        if k < avail {
            p.stats.short_reads += 1;
        }
        for _ in 0..k {
            let b = p.buf.pop_front().unwrap();
            dst.put_slice(&[b]);
        }
        p.read += k as u64;
        count_moved(k);
        p.log.push(0x1000 + k as u64);
        p.wake_writer();
        Poll::Ready(Ok(()))
    }
}

impl SimStream {
    fn write_some(&mut self, cx: &mut Context<'_>, bufs: &[&[u8]], vectored: bool) -> Poll<io::Result<usize>> {
        count_op();
        // Like TCP: after the peer has closed its socket, a local write is still accepted (and
        // goes nowhere) while there is data from the peer that has not been read yet; the error
        // only surfaces once that has been drained. Failing at once would make a peer that
        // answers and closes indistinguishable from one that closes without answering.
        let unread_from_peer = !self.rx.lock().buf.is_empty();
        let mut p = self.tx.lock();
        let p = &mut *p;
        let total: usize = bufs.iter().map(|b| b.len()).sum();
        if p.reader_gone && !p.reset && unread_from_peer {
            p.stats.discarded_after_peer_close += 1;
            return Poll::Ready(Ok(total));
        }
        if p.reset || p.reader_gone {
            return Poll::Ready(Err(io::ErrorKind::BrokenPipe.into()));
        }
        if p.eof {
            return Poll::Ready(Err(io::ErrorKind::BrokenPipe.into()));
        }
        if total == 0 {
            return Poll::Ready(Ok(0));
        }
        let space = p.mode.cap.saturating_sub(p.buf.len());
        if space == 0 && !p.stalled {
            p.stats.tiny_buffer_full += 1;
            p.write_waker = Some(cx.waker().clone());
            return Poll::Pending;
        }
        if inject_wait(&mut self.delay_w, cx, &p.mode, &mut p.rng_w, &mut p.stats) {
            return Poll::Pending;
        }
        let space = if p.stalled { total } else { space };
        let avail = space.min(total);
        let mut k = Pipe::chunk(&p.mode, &mut p.rng_w, avail);
        // do not write past a scheduled fault offset: the fault fires exactly there
        if let Some(f) = &p.fault {
            let left = f.at.saturating_sub(p.written);
            if left == 0 {
                let kind = f.kind;
                p.fault = None;
                p.inject(kind);
                return match kind {
                    FaultKind::Stall => {
                        // swallow silently from now on
                        p.written += total as u64;
                        count_moved(total);
                        Poll::Ready(Ok(total))
                    }
                    _ => Poll::Ready(Err(io::ErrorKind::BrokenPipe.into())),
                };
            }
            k = k.min(left as usize).max(1);
        }
        if k < total {
            p.stats.short_writes += 1;
        }
        if vectored {
            p.stats.vectored_writes += 1;
        }
        let mut left = k;
        for b in bufs {
            if left == 0 {
                break;
            }
            let n = b.len().min(left);
            if !p.stalled {
                p.buf.extend(&b[..n]);
            }
            if p.head.len() < p.head_limit {
                let room = p.head_limit - p.head.len();
                p.head.extend_from_slice(&b[..n.min(room)]);
            }
            left -= n;
        }
        p.written += k as u64;
        count_moved(k);
        p.log.push(0x2000 + k as u64);
        // a fault scheduled exactly at the new offset fires as soon as it is reached (EOF / reset
        // become visible to the reader without needing another write)
        if let Some(f) = &p.fault {
            if f.at <= p.written && f.kind != FaultKind::Stall {
                let kind = f.kind;
                p.fault = None;
                p.inject(kind);
            } else if f.at <= p.written {
                p.fault = None;
                p.inject(FaultKind::Stall);
            }
        }
        p.wake_reader();
        Poll::Ready(Ok(k))
    }
}

impl SimStream {
    /// Hand everything held back (lazy_flush) to the pipe.
    fn drain_wbuf(&mut self, cx: &mut Context<'_>) -> Poll<io::Result<()>> {
        while !self.wbuf.is_empty() {
            let held = std::mem::take(&mut self.wbuf);
            let r = self.write_some(cx, &[&held[..]], false);
            match r {
                Poll::Ready(Ok(n)) => self.wbuf = held[n..].to_vec(),
                Poll::Ready(Err(e)) => {
                    self.wbuf = held;
                    return Poll::Ready(Err(e));
                }
                Poll::Pending => {
                    self.wbuf = held;
                    return Poll::Pending;
                }
            }
        }
        Poll::Ready(Ok(()))
    }
}

impl AsyncWrite for SimStream {
    fn poll_write(mut self: Pin<&mut Self>, cx: &mut Context<'_>, buf: &[u8]) -> Poll<io::Result<usize>> {
        if self.tx.lock().mode.lazy_flush {
            if self.wbuf.len() + buf.len() > LAZY_CAP {
                // a full buffer goes out first, as BufWriter's does
                match self.drain_wbuf(cx) {
                    Poll::Ready(Ok(())) => {}
                    other => return other.map(|r| r.map(|_| 0)),
                }
            }
            let n = buf.len().min(LAZY_CAP);
            self.wbuf.extend_from_slice(&buf[..n]);
            return Poll::Ready(Ok(n));
        }
        self.write_some(cx, &[buf], false)
    }

    fn poll_write_vectored(mut self: Pin<&mut Self>, cx: &mut Context<'_>, bufs: &[io::IoSlice<'_>]) -> Poll<io::Result<usize>> {
        let slices: Vec<&[u8]> = bufs.iter().map(|b| &**b).collect();
        if self.tx.lock().mode.lazy_flush {
            let first = slices.iter().find(|b| !b.is_empty()).copied().unwrap_or(&[]);
            return self.poll_write(cx, first);
        }
        if self.tx.lock().mode.vectored {
            self.write_some(cx, &slices, true)
        } else {
            // behave like the default implementation: first non-empty buffer only
            let first = slices.iter().find(|b| !b.is_empty()).copied().unwrap_or(&[]);
            self.write_some(cx, &[first], false)
        }
    }

    fn is_write_vectored(&self) -> bool {
        self.tx.lock().mode.vectored
    }

    fn poll_flush(mut self: Pin<&mut Self>, cx: &mut Context<'_>) -> Poll<io::Result<()>> {
        if !self.wbuf.is_empty() {
            match self.drain_wbuf(cx) {
                Poll::Ready(Ok(())) => {}
                other => return other,
            }
        }
        let p = self.tx.lock();
        if p.reset {
            return Poll::Ready(Err(io::ErrorKind::BrokenPipe.into()));
        }
        Poll::Ready(Ok(()))
    }

    fn poll_shutdown(mut self: Pin<&mut Self>, cx: &mut Context<'_>) -> Poll<io::Result<()>> {
        if !self.wbuf.is_empty() {
            match self.drain_wbuf(cx) {
                Poll::Ready(Ok(())) => {}
                other => return other,
            }
        }
        let mut p = self.tx.lock();
        if !p.stalled {
            p.eof = true;
        }
        p.log.push(0x5D);
        p.wake_reader();
        Poll::Ready(Ok(()))
    }
}

impl Drop for SimStream {
    fn drop(&mut self) {
        {
            let mut p = self.tx.lock();
            if !p.stalled {
                p.eof = true;
            }
            p.wake_reader();
        }
        {
            let mut p = self.rx.lock();
            p.reader_gone = true;
            p.wake_writer();
        }
    }
}
