//! C10 / C11, second part (`realconnect`): the wiring between `TcpTransport` and the
//! happy-eyeballs core - candidate order, port, which stream is returned, what happens when
//! every candidate refuses - over real loopback sockets.
//!
//! The core (`EyeballSet`) is decided in virtual time by `eyesim`. What that cannot see is how
//! `TcpTransport::connect_to_addrs` / `Service::call` feed it: the order in which addresses are
//! popped, the per-address port, the mapping of its errors. Kernel TCP has no seam, but on the
//! loopback interface the two outcomes used here are immediate and deterministic: a listening
//! address accepts, a closed port refuses. Candidates are distinct addresses 127.0.0.x sharing
//! one port; listeners are plain `std` sockets that never call `accept`, so after the run the
//! number of connections in each backlog says which candidates were attempted.

use std::net::{Ipv4Addr, SocketAddr, SocketAddrV4};
use std::time::Duration;

use serde::{Deserialize, Serialize};
use serde_json::json;

use crate::framework::{Outcome, Scenario, ScenarioInfo, Tier, Violation};
use crate::rng::{Digest, Rng};
use crate::simrt;

use hyperdriver::client::conn::dns::SocketAddrs;
use hyperdriver::client::conn::transport::tcp::{TcpTransport, TcpTransportConfig};

#[derive(Clone, Copy, Debug, Serialize, Deserialize, PartialEq, Eq)]
pub enum Via {
    /// TcpTransport::connect_to_addrs
    Addrs,
    /// tower::Service::call with a static resolver (host -> address list, port from the URI)
    Call,
}

#[derive(Clone, Debug, Serialize, Deserialize)]
pub struct ConnCase {
    pub seed: u64,
    /// candidate i listens (true) or refuses (false)
    pub listening: Vec<bool>,
    pub concurrency: Option<usize>,
    pub timeout_ms: Option<u64>,
    pub via: Via,
    /// an extra first candidate whose socket cannot even be set up: an IPv6 address, with a local
    /// IPv6 bind address configured that this host does not have (bind fails synchronously)
    #[serde(default)]
    pub setup_fails_first: bool,
    /// an extra first candidate whose connect neither succeeds nor fails for a long time (a
    /// listener whose accept queue is full: further SYNs are dropped). Only used with
    /// concurrency 1 and an overall timeout of 4 s, so that the stagger delay (timeout / number of
    /// candidates) is what starts the next attempt.
    #[serde(default)]
    pub hanging_first: bool,
    /// per-attempt connect timeout in ms; 0 = none; absent = 5 s. With a hanging candidate and
    /// nothing else that can succeed, only the overall deadline may end the operation.
    #[serde(default)]
    pub connect_timeout_ms: Option<u64>,
}

pub struct RealConnectSim {
    pub property: &'static str,
}

fn enumerated() -> Vec<ConnCase> {
    let mut v = vec![];
    for n in 0..=4usize {
        for mask in 0..(1u32 << n) {
            for concurrency in [None, Some(1), Some(2)] {
                for timeout_ms in [None, Some(30_000u64)] {
                    for via in [Via::Addrs, Via::Call] {
                        if via == Via::Call && n == 0 {
                            continue;
                        }
                        for setup_fails_first in [false, true] {
                            if setup_fails_first && n > 3 {
                                continue;
                            }
                            v.push(ConnCase { seed: 3, listening: (0..n).map(|i| mask & (1 << i) != 0).collect(), concurrency, timeout_ms, via, setup_fails_first, hanging_first: false, connect_timeout_ms: None });
                        }
                    }
                }
            }
        }
    }
    for listening in [vec![true], vec![false, true], vec![true, true]] {
        for via in [Via::Addrs, Via::Call] {
            v.push(ConnCase { seed: 3, listening: listening.clone(), concurrency: Some(1), timeout_ms: Some(4000), via, setup_fails_first: false, hanging_first: true, connect_timeout_ms: None });
        }
    }
    // the overall deadline: nothing but a hanging candidate (alone, or followed by candidates that
    // refuse), a deadline of 1 s and a per-attempt timeout that is longer or absent
    for listening in [vec![], vec![false], vec![false, false]] {
        for via in [Via::Addrs, Via::Call] {
            for concurrency in [None, Some(1), Some(2)] {
                for connect_timeout_ms in [Some(5000u64), Some(0)] {
                    v.push(ConnCase { seed: 3, listening: listening.clone(), concurrency, timeout_ms: Some(1000), via, setup_fails_first: false, hanging_first: true, connect_timeout_ms });
                }
            }
        }
    }
    v
}

static NEXT_LANE: std::sync::atomic::AtomicU32 = std::sync::atomic::AtomicU32::new(1);
thread_local! {
    /// (second octet, third octet, lock socket) of the block of loopback addresses this worker
    /// thread has claimed
    static BLOCK: std::cell::RefCell<Option<(u8, u8, std::net::TcpListener)>> = const { std::cell::RefCell::new(None) };
}

/// The block 127.<a>.<b>.x of this worker thread. Every worker thread of every concurrently
/// running process needs its own, so that one run's closed port can never be another run's
/// listener. A block is claimed by binding a lock socket on 127.<a>.<b>.250:47123 (held for the
/// life of the thread): two processes whose ids collide - or anything else running on this host -
/// cannot end up in the same block.
fn block() -> (u8, u8) {
    BLOCK.with(|b| {
        if let Some((a, l, _)) = &*b.borrow() {
            return (*a, *l);
        }
        let lane0 = NEXT_LANE.fetch_add(1, std::sync::atomic::Ordering::Relaxed);
        let proc0 = std::process::id() % 200;
        for k in 0..200u32 * 250 {
            let a = ((proc0 + k / 250) % 200) as u8 + 20;
            let l = ((lane0 + k) % 250) as u8 + 1;
            if let Ok(lock) = std::net::TcpListener::bind(SocketAddrV4::new(Ipv4Addr::new(127, a, l, 250), 47123)) {
                *b.borrow_mut() = Some((a, l, lock));
                return (a, l);
            }
        }
        panic!("harness: no free block of loopback addresses");
    })
}

/// Candidate i of this worker thread: 127.<a>.<b>.(20+i).
fn candidate_ip(i: usize) -> Ipv4Addr {
    let (a, l) = block();
    Ipv4Addr::new(127, a, l, 20 + i as u8)
}

thread_local! {
    static NEXT_PORT: std::cell::Cell<u16> = const { std::cell::Cell::new(10_000) };
}

/// Bind listeners (or reserve closed ports) on candidate_ip(i):P for one common P.
fn setup(listening: &[bool]) -> std::io::Result<(u16, Vec<Option<std::net::TcpListener>>)> {
    'retry: for _ in 0..200 {
        // Pick a port that is free on every candidate address - and *below* the kernel's range of
        // ephemeral ports (32768..): a connect to a closed port P on a loopback address whose
        // source address is that same address and whose kernel-chosen source port happens to be P
        // connects to itself (TCP simultaneous open) and "succeeds". With P taken from the
        // ephemeral range that happened about once in 30 000 connects to a closed candidate.
        let port = NEXT_PORT.with(|n| {
            let v = n.get();
            n.set(if v >= 31_000 { 10_000 } else { v + 1 });
            v
        });
        let mut ls = vec![];
        for (i, l) in listening.iter().enumerate() {
            let addr = SocketAddrV4::new(candidate_ip(i), port);
            match std::net::TcpListener::bind(addr) {
                Ok(s) => {
                    s.set_nonblocking(true)?;
                    // a closed candidate: bind succeeded, so the port is free there; drop it again
                    ls.push(if *l { Some(s) } else { None });
                }
                Err(_) => continue 'retry,
            }
        }
        return Ok((port, ls));
    }
    Err(std::io::Error::other("no common free port found"))
}

/// A loopback address on which a connect stays pending: a listener with the smallest backlog whose
/// accept queue has been filled (Linux then drops further SYNs). Returns the sockets that must be
/// kept alive, and whether a probe connect really stayed pending.
fn hanging_listener(addr: SocketAddrV4) -> std::io::Result<(Vec<Box<dyn std::any::Any>>, bool)> {
    use socket2::{Domain, SockAddr, Socket, Type};
    let l = Socket::new(Domain::IPV4, Type::STREAM, None)?;
    l.set_reuse_address(true)?;
    l.bind(&SockAddr::from(addr))?;
    l.listen(0)?;
    let mut keep: Vec<Box<dyn std::any::Any>> = vec![];
    let mut hangs = false;
    for _ in 0..8 {
        match std::net::TcpStream::connect_timeout(&SocketAddr::V4(addr), Duration::from_millis(150)) {
            Ok(s) => keep.push(Box::new(s)),
            Err(e) if e.kind() == std::io::ErrorKind::TimedOut => {
                hangs = true;
                break;
            }
            Err(_) => break,
        }
    }
    keep.push(Box::new(l));
    Ok((keep, hangs))
}

impl Scenario for RealConnectSim {
    type Case = ConnCase;

    fn engine(&self) -> &'static str {
        "realconnect"
    }

    fn info(&self) -> ScenarioInfo {
        ScenarioInfo {
            rule: "TcpTransport (connect_to_addrs, and tower::Service::call with a static resolver) against 0..5 candidate addresses 127.<process>.<thread>.(20+i):P, each either listening (never accepting: the backlog count says whether it was attempted) or closed (refuses at once), optionally preceded by a candidate whose socket cannot be set up (IPv6 address with an unbindable local IPv6 address configured) or by one whose connect stays pending (listener with a full accept queue; then with a 4 s overall timeout and concurrency 1, so that only the stagger delay = timeout / candidates starts the next attempt), x happy_eyeballs_concurrency {None, 1, 2} x happy_eyeballs_timeout {None, 30 s}; all combinations up to 4 candidates enumerated, seeded beyond. Oracle (C10): Ok iff some candidate listens, the returned stream's peer is a listening candidate, with no candidates it fails at once (not at the deadline), with all refusing the error is a refusal; (C11): with concurrency 1 the winner is the first listening candidate in the given order and no later candidate was attempted; with concurrency 2 nothing beyond the second candidate after the last failure before the winner was attempted; every candidate is attempted at most once; the port of the URI is used for every address.".into(),
            real: vec![
                "client::conn::transport::tcp::{TcpTransport, TcpConnecting, TcpConnectionAttempt, connect()}, dns::SocketAddrs (pop order, set_port, sort_preferred with one family), happy_eyeballs::EyeballSet, stream::tcp::TcpStream",
                "Linux loopback TCP (real kernel sockets; accept and refuse are immediate there)",
            ],
            stub: vec!["the resolver for the Service::call variant (static host -> address list)"],
            assumptions: vec!["latency and never-completing attempts cannot be produced on loopback; those dimensions are eyesim's (virtual time)", "time is real here and bounds a hang only (10 s)"],
        }
    }

    fn num_cases(&self, tier: Tier) -> (u64, u64) {
        (enumerated().len() as u64, if tier == Tier::Quick { 300 } else { 20_000 })
    }

    fn case(&self, index: u64, seed: u64, _tier: Tier) -> ConnCase {
        let e = enumerated();
        if (index as usize) < e.len() {
            return e[index as usize].clone();
        }
        let mut r = Rng::keyed(seed, "realconnect");
        let n = r.range(1, 6) as usize;
        ConnCase {
            seed,
            listening: (0..n).map(|_| r.chance(1, 3)).collect(),
            concurrency: *r.pick(&[None, Some(1), Some(2), Some(3)]),
            timeout_ms: *r.pick(&[None, Some(30_000u64)]),
            via: *r.pick(&[Via::Addrs, Via::Call]),
            setup_fails_first: r.chance(1, 4),
            hanging_first: false,
            connect_timeout_ms: None,
        }
    }

    fn execute(&self, case: &ConnCase) -> Outcome {
        simrt::install_panic_hook();
        let _ = simrt::take_panics();
        let mut out = Outcome::default();
        let (port, listeners) = match setup(&case.listening) {
            Ok(x) => x,
            Err(e) => {
                out.harness_error = Some(format!("harness: listener setup: {}", e));
                return out;
            }
        };
        let addrs: Vec<SocketAddr> = (0..case.listening.len()).map(|i| SocketAddr::V4(SocketAddrV4::new(candidate_ip(i), port))).collect();
        // what is handed to the transport: optionally with the candidate in front that cannot be set up
        let bad: SocketAddr = SocketAddr::new("2001:db8::5".parse().unwrap(), port);
        let hang_addr = SocketAddrV4::new(candidate_ip(100), port);
        let (_hang_keep, hangs) = if case.hanging_first {
            match hanging_listener(hang_addr) {
                Ok(x) => x,
                Err(e) => {
                    out.harness_error = Some(format!("harness: hanging listener: {}", e));
                    return out;
                }
            }
        } else {
            (vec![], false)
        };
        let offered: Vec<SocketAddr> = if case.setup_fails_first {
            std::iter::once(bad).chain(addrs.iter().copied()).collect()
        } else if case.hanging_first {
            std::iter::once(SocketAddr::V4(hang_addr)).chain(addrs.iter().copied()).collect()
        } else {
            addrs.clone()
        };
        // a listener on the first candidate's address, on another port: what a resolver-reported port would reach
        let decoy = std::net::TcpListener::bind(SocketAddrV4::new(candidate_ip(0), 0)).ok();
        let decoy_port = decoy.as_ref().and_then(|d| d.local_addr().ok()).map(|a| a.port()).filter(|p| *p != port).unwrap_or(1);
        let rt = tokio::runtime::Builder::new_current_thread().enable_all().build().expect("runtime");
        let started = std::time::Instant::now();
        let res = std::panic::catch_unwind(std::panic::AssertUnwindSafe(|| {
            rt.block_on(async {
                let mut cfg = TcpTransportConfig::default();
                cfg.happy_eyeballs_concurrency = case.concurrency;
                cfg.happy_eyeballs_timeout = case.timeout_ms.map(Duration::from_millis);
                cfg.connect_timeout = match case.connect_timeout_ms {
                    None => Some(Duration::from_secs(5)),
                    Some(0) => None,
                    Some(ms) => Some(Duration::from_millis(ms)),
                };
                if case.setup_fails_first {
                    cfg.local_address_ipv6 = Some("2001:db8::1".parse().unwrap());
                }
                let fut = async {
                    match case.via {
                        Via::Addrs => {
                            let t: TcpTransport<_, hyperdriver::stream::tcp::TcpStream> = TcpTransport::builder().with_config(cfg).with_gai_resolver().build();
                            t.connect_to_addrs(offered.clone()).await.map_err(|e| format!("{:?}", e))
                        }
                        Via::Call => {
                            // the resolver answers with another port (on which a decoy listens for the
                            // first candidate's address); the transport must put the URI's port on every address
                            let list: Vec<SocketAddr> = offered.iter().map(|a| SocketAddr::new(a.ip(), decoy_port)).collect();
                            let resolver = tower::service_fn(move |_host: Box<str>| {
                                let list = list.clone();
                                async move { Ok::<_, std::io::Error>(SocketAddrs::from_iter(list)) }
                            });
                            let mut t: TcpTransport<_, hyperdriver::stream::tcp::TcpStream> = TcpTransport::builder().with_config(cfg).with_resolver(resolver).build();
                            let (parts, ()) = http::Request::builder().uri(format!("http://sim.test:{}/x", port)).body(()).unwrap().into_parts();
                            use tower::ServiceExt;
                            match (&mut t).ready().await {
                                Ok(svc) => tower::Service::call(svc, parts).await.map_err(|e| format!("{:?}", e)),
                                Err(e) => Err(format!("{:?}", e)),
                            }
                        }
                    }
                };
                match tokio::time::timeout(Duration::from_secs(10), fut).await {
                    Ok(Ok(stream)) => Ok(Some(stream.peer_addr().map_err(|e| e.to_string()))),
                    Ok(Err(e)) => Err(e),
                    Err(_) => Err("HANG".to_string()),
                }
            })
        }));
        drop(rt);
        for p in simrt::take_panics() {
            if p.in_harness() {
                out.harness_error = Some(format!("harness panic {} at {}", p.message, p.location()));
            } else {
                out.violations.push(Violation::new("C10", "panic", json!({"location": p.location()}), format!("panic: {} at {}", p.message, p.location())));
            }
        }
        let Ok(res) = res else { return out };
        // how many connections reached each listening candidate
        let attempted: Vec<Option<usize>> = listeners
            .iter()
            .map(|l| {
                l.as_ref().map(|l| {
                    let mut n = 0;
                    while l.accept().is_ok() {
                        n += 1;
                    }
                    n
                })
            })
            .collect();
        let n = case.listening.len();
        let first_listening = case.listening.iter().position(|l| *l);
        let mut log = Digest::default();
        let mut sig = Digest::default();
        sig.push(n as u64);
        for l in &case.listening {
            sig.push(*l as u64);
        }
        sig.push(case.concurrency.map(|c| c as u64 + 1).unwrap_or(0));
        sig.push(case.timeout_ms.is_some() as u64);
        sig.push(case.via as u64);
        sig.push(case.setup_fails_first as u64);
        sig.push(case.hanging_first as u64 * 4 + case.connect_timeout_ms.map(|c| 1 + (c == 0) as u64).unwrap_or(0));
        out.abstract_sig = sig.0;
        if case.setup_fails_first {
            out.count("fault.candidate_socket_setup_fails");
        }
        for l in &case.listening {
            out.count(if *l { "probe.candidate_listening" } else { "fault.candidate_refuses" });
        }
        if case.hanging_first {
            out.count(if hangs { "fault.candidate_connect_hangs" } else { "probe.hanging_candidate_not_reproducible_here" });
        }
        out.nontrivial = n >= 2;
        out.sim_ms = started.elapsed().as_millis() as u64;
        let csig = json!({"via": format!("{:?}", case.via), "concurrency": case.concurrency});
        // C06: the connection must be established for the authority of the request URI - host *and* port
        if let Ok(Some(Ok(peer))) = &res {
            if peer.port() != port && !(case.hanging_first && peer.port() == port) {
                out.violations.push(Violation::new(
                    "C06",
                    "connected_to_other_port",
                    csig.clone(),
                    format!("the request names port {} but the returned stream is connected to {} (the resolver's answer carried port {})", port, peer, decoy_port),
                ));
            }
        }
        let mut v10 = |rule: &str, d: String| out.violations.push(Violation::new("C10", rule, csig.clone(), d));
        let winner: Option<usize> = match &res {
            Ok(Some(Ok(peer))) => addrs.iter().position(|a| a == peer),
            _ => None,
        };
        // the hanging candidate may accept after all (a retransmitted SYN getting through): fine
        let hanging_won = case.hanging_first && matches!(&res, Ok(Some(Ok(peer))) if *peer == SocketAddr::V4(hang_addr));
        match &res {
            _ if hanging_won => log.push(3),
            Err(e) if e == "HANG" => v10("connect_hangs", format!("{:?}: no result within 10 s", case)),
            Err(e) => {
                log.push(2);
                if first_listening.is_some() {
                    v10("error_although_candidate_listens", format!("candidates {:?}: {}", case.listening, e));
                } else if case.hanging_first {
                    // judged below (the overall deadline)
                } else if n == 0 {
                    // "fails immediately": not by waiting for the overall deadline (30 s when set)
                    if started.elapsed() > Duration::from_secs(5) {
                        v10("no_candidates_not_immediate", format!("no candidates: error only after {:?}: {}", started.elapsed(), e));
                    }
                } else if !case.setup_fails_first && !(e.to_lowercase().contains("refused")) {
                    v10("wrong_error_when_all_refuse", format!("all {} candidates refuse, error is: {}", n, e));
                }
            }
            Ok(Some(Err(e))) => v10("stream_without_peer", format!("returned stream has no peer address: {}", e)),
            Ok(Some(Ok(peer))) => {
                log.push(1);
                match winner {
                    None => v10("connected_to_unknown_peer", format!("returned stream is connected to {}, not one of {:?}", peer, addrs)),
                    Some(w) if !case.listening[w] => v10("connected_to_closed_candidate", format!("returned stream is connected to closed candidate {}", w)),
                    Some(_) => {}
                }
                if first_listening.is_none() {
                    v10("ok_although_all_refuse", format!("Ok({}) although no candidate listens", peer));
                }
            }
            Ok(None) => {}
        }
        // ---- C11 (and C10's "or after the overall deadline has expired"): with a hanging candidate and
        // nothing that can succeed, the operation ends at the overall deadline, not at the
        // per-attempt timeout and not never. Real time: 2 s of slack on a 1 s deadline.
        if case.hanging_first && hangs && first_listening.is_none() && !hanging_won {
            if let Some(t) = case.timeout_ms {
                let el = started.elapsed();
                out.count("probe.deadline_with_only_a_hanging_candidate");
                if matches!(&res, Err(e) if e == "HANG") || el > Duration::from_millis(t + 2000) {
                    out.violations.push(Violation::new(
                        "C11",
                        "deadline_overrun",
                        json!({"via": format!("{:?}", case.via), "per_attempt_timeout": case.connect_timeout_ms != Some(0)}),
                        format!("one hanging candidate followed by {} refusing ones, overall deadline {} ms, per-attempt timeout {:?}: the operation ended after {:?} with {:?}", n, t, case.connect_timeout_ms, el, res.as_ref().err()),
                    ));
                }
            }
        }
        log.push(winner.map(|w| w as u64 + 1).unwrap_or(0));
        for a in &attempted {
            log.push(a.map(|x| x as u64 + 1).unwrap_or(0));
        }
        out.log_digest = log.0;
        // ---- C11: order, at most once, pacing bound
        let mut v11 = |rule: &str, d: String| out.violations.push(Violation::new("C11", rule, csig.clone(), d));
        // every candidate in front of the first listening one fails at once (refusal or socket
        // setup); each failure must start the next attempt, so the first listening candidate is
        // always reached - whatever the operation then reports
        if let Some(fl) = first_listening {
            if attempted[fl].unwrap_or(0) == 0 && !case.hanging_first {
                v11(
                    "not_started_after_failure",
                    format!(
                        "candidates {:?} (socket setup of an extra first candidate fails: {}): the first listening candidate {} was never attempted although everything in front of it fails immediately; result {:?}",
                        case.listening, case.setup_fails_first, fl, res.as_ref().err()
                    ),
                );
            }
        }
        for (i, a) in attempted.iter().enumerate() {
            if let Some(k) = a {
                if *k > 1 {
                    v11("attempted_twice", format!("candidate {} received {} connections", i, k));
                }
            }
        }
        if let (Some(w), Some(fl), false) = (winner, first_listening, case.hanging_first) {
            if case.concurrency == Some(1) {
                if w != fl {
                    v11("wrong_winner_sequential", format!("concurrency 1, candidates {:?}: winner is {}, the first listening candidate is {}", case.listening, w, fl));
                }
                for (i, a) in attempted.iter().enumerate() {
                    if i > fl && a.unwrap_or(0) > 0 {
                        v11("started_beyond_winner", format!("concurrency 1, candidates {:?}: candidate {} was attempted although {} had accepted", case.listening, i, fl));
                    }
                }
            }
            if let Some(c) = case.concurrency {
                // Before the first listening candidate only refusals happen (each immediate), so at
                // the moment it is started at most c-1 later candidates can be in flight, and its
                // connect completes at once: nothing further than fl + c - 1 may have been attempted.
                for (i, a) in attempted.iter().enumerate() {
                    if c >= 1 && i > fl + c - 1 && a.unwrap_or(0) > 0 {
                        v11("started_beyond_concurrency", format!("concurrency {}, candidates {:?}: candidate {} was attempted", c, case.listening, i));
                    }
                }
            }
            // whatever the configuration, the first listening candidate must have been attempted
            // before any later listening one can win
            if w > fl && attempted[fl].unwrap_or(0) == 0 {
                v11("skipped_candidate", format!("candidates {:?}: candidate {} won although the earlier listening candidate {} was never attempted", case.listening, w, fl));
            }
        }
        out
    }

    fn shrink(&self, case: &ConnCase) -> Vec<ConnCase> {
        let mut v = vec![];
        for i in 0..case.listening.len() {
            let mut c = case.clone();
            c.listening.remove(i);
            v.push(c);
        }
        if case.timeout_ms.is_some() {
            let mut c = case.clone();
            c.timeout_ms = None;
            v.push(c);
        }
        if case.via != Via::Addrs {
            let mut c = case.clone();
            c.via = Via::Addrs;
            v.push(c);
        }
        if case.setup_fails_first {
            let mut c = case.clone();
            c.setup_fails_first = false;
            v.push(c);
        }
        if case.hanging_first {
            let mut c = case.clone();
            c.hanging_first = false;
            v.push(c);
        }
        v
    }
}
