//! Engine E `timersim`: hyperdriver's `service::Timeout` over a scripted inner service in
//! virtual time. Part of C19 (the other part runs the Timeout layer over the real pool in poolsim).

use std::cell::RefCell;
use std::future::Future;
use std::pin::Pin;
use std::rc::Rc;
use std::task::{Context, Poll};
use std::time::Duration;

use hyperdriver::service::Timeout;
use serde::{Deserialize, Serialize};
use serde_json::json;
use tower::Service;

use crate::framework::{Outcome, Scenario, ScenarioInfo, Tier, Violation};
use crate::rng::{Digest, Rng};
use crate::simrt;

#[derive(Clone, Copy, Debug, Serialize, Deserialize, PartialEq, Eq)]
pub enum Inner {
    Ok,
    Err,
    Never,
}

#[derive(Clone, Debug, Serialize, Deserialize)]
pub struct TimerCase {
    pub d_ms: u64,
    pub inner: Inner,
    pub latency_ms: u64,
    /// delay between `call()` and the first poll of the returned future
    pub first_poll_gap_ms: u64,
    /// virtual time at which the request is issued
    pub issue_at_ms: u64,
}

#[derive(Debug, PartialEq)]
enum E {
    Inner,
    Timeout,
}

#[derive(Default)]
struct Rec {
    first_poll: Option<u64>,
    finished: Option<u64>,
    dropped: Option<u64>,
    polls_after_finish: u32,
    last_poll: Option<u64>,
}

struct ScriptedFut {
    t0: tokio::time::Instant,
    rec: Rc<RefCell<Rec>>,
    inner: Inner,
    latency: Duration,
    sleep: Option<Pin<Box<tokio::time::Sleep>>>,
}

impl Future for ScriptedFut {
    type Output = Result<u32, E>;
    fn poll(mut self: Pin<&mut Self>, cx: &mut Context<'_>) -> Poll<Self::Output> {
        let now = simrt::ms_since(self.t0);
        {
            let mut r = self.rec.borrow_mut();
            r.first_poll.get_or_insert(now);
            r.last_poll = Some(now);
            if r.finished.is_some() {
                r.polls_after_finish += 1;
            }
        }
        if self.sleep.is_none() {
            let l = self.latency;
            self.sleep = Some(Box::pin(tokio::time::sleep(l)));
        }
        if self.sleep.as_mut().unwrap().as_mut().poll(cx).is_pending() {
            return Poll::Pending;
        }
        match self.inner {
            Inner::Never => Poll::Pending,
            Inner::Ok => {
                self.rec.borrow_mut().finished = Some(simrt::ms_since(self.t0));
                Poll::Ready(Ok(7))
            }
            Inner::Err => {
                self.rec.borrow_mut().finished = Some(simrt::ms_since(self.t0));
                Poll::Ready(Err(E::Inner))
            }
        }
    }
}

impl Drop for ScriptedFut {
    fn drop(&mut self) {
        let now = tokio::time::Instant::now().duration_since(self.t0).as_millis() as u64;
        self.rec.borrow_mut().dropped = Some(now);
    }
}

struct ScriptedSvc {
    t0: tokio::time::Instant,
    rec: Rc<RefCell<Rec>>,
    inner: Inner,
    latency: Duration,
}

impl Service<()> for ScriptedSvc {
    type Response = u32;
    type Error = E;
    type Future = ScriptedFut;
    fn poll_ready(&mut self, _cx: &mut Context<'_>) -> Poll<Result<(), E>> {
        Poll::Ready(Ok(()))
    }
    fn call(&mut self, _req: ()) -> ScriptedFut {
        ScriptedFut { t0: self.t0, rec: self.rec.clone(), inner: self.inner, latency: self.latency, sleep: None }
    }
}

fn timeout_err() -> E {
    E::Timeout
}

pub struct TimerSim;

const DS: [u64; 4] = [0, 1, 20, 30_000];
const GAPS: [u64; 3] = [0, 1, 7];

fn latencies(d: u64) -> Vec<u64> {
    let mut v = vec![0, 1, d.saturating_sub(1), d, d + 1, 19, 20, 21, d * 2 + 3];
    v.sort();
    v.dedup();
    v
}

fn enumerated() -> Vec<TimerCase> {
    let mut v = vec![];
    for d in DS {
        for inner in [Inner::Ok, Inner::Err, Inner::Never] {
            for l in latencies(d) {
                for gap in GAPS.iter().copied().chain([d + 5]) {
                    for issue_at in [0u64, 13] {
                        v.push(TimerCase { d_ms: d, inner, latency_ms: l, first_poll_gap_ms: gap, issue_at_ms: issue_at });
                    }
                }
            }
        }
    }
    v
}

impl Scenario for TimerSim {
    type Case = TimerCase;

    fn engine(&self) -> &'static str {
        "timersim"
    }

    fn info(&self) -> ScenarioInfo {
        ScenarioInfo {
            rule: "service::Timeout over a scripted inner future: duration d in {0,1,20,30000} ms x inner outcome ok/err/never x completion before/at/after d x gap between call() and first poll x issue instant, enumerated completely, plus seeded random values; non-trivial: inner completion within 2 ms of the deadline or never; distinct = (d class, outcome, sign of latency-d, gap class, result).".into(),
            real: vec!["service::timeout::{Timeout, TimeoutFuture}", "tokio::time::Sleep on the paused clock"],
            stub: vec!["inner service (scripted latency and outcome)"],
            assumptions: vec!["when the inner future and the timer become ready in the same millisecond either result is accepted"],
        }
    }

    fn num_cases(&self, tier: Tier) -> (u64, u64) {
        (enumerated().len() as u64, if tier == Tier::Quick { 20_000 } else { 1_000_000 })
    }

    fn case(&self, index: u64, seed: u64, _tier: Tier) -> TimerCase {
        let e = enumerated();
        if (index as usize) < e.len() {
            return e[index as usize].clone();
        }
        let mut r = Rng::keyed(seed, "timer");
        let d = if r.chance(1, 2) { *r.pick(&DS) } else { r.range(0, 200) };
        TimerCase {
            d_ms: d,
            inner: *r.pick(&[Inner::Ok, Inner::Err, Inner::Never]),
            latency_ms: if r.chance(1, 2) { (d + r.range(0, 4)).saturating_sub(2) } else { r.range(0, 400) },
            first_poll_gap_ms: *r.pick(&[0, 0, 1, 5, d, d + 1]),
            issue_at_ms: r.range(0, 50),
        }
    }

    fn execute(&self, case: &TimerCase) -> Outcome {
        simrt::install_panic_hook();
        let mut out = Outcome::default();
        let rt = simrt::runtime();
        let rec = Rc::new(RefCell::new(Rec::default()));
        let (result, issue, completion) = rt.block_on(async {
            let t0 = tokio::time::Instant::now();
            tokio::time::sleep(Duration::from_millis(case.issue_at_ms)).await;
            let svc = ScriptedSvc { t0, rec: rec.clone(), inner: case.inner, latency: Duration::from_millis(case.latency_ms) };
            let mut t = Timeout::new(svc, Duration::from_millis(case.d_ms), Box::new(timeout_err as fn() -> E));
            let issue = simrt::ms_since(t0);
            let fut = t.call(());
            if case.first_poll_gap_ms > 0 {
                tokio::time::sleep(Duration::from_millis(case.first_poll_gap_ms)).await;
            }
            let r = tokio::time::timeout(Duration::from_secs(7200), fut).await;
            let completion = simrt::ms_since(t0);
            (r, issue, completion)
        });
        drop(rt);
        let _ = simrt::take_panics();
        let rec = rec.borrow();
        let d = case.d_ms;
        let gap = case.first_poll_gap_ms;
        let deadline = issue + d;
        let first_poll = issue + gap;
        // the inner future is first polled at `first_poll`; it completes at first_poll + latency
        let inner_done = match case.inner {
            Inner::Never => None,
            _ => Some(first_poll + case.latency_ms),
        };
        let res_kind = match &result {
            Err(_) => 0u64,
            Ok(Ok(_)) => 1,
            Ok(Err(E::Inner)) => 2,
            Ok(Err(E::Timeout)) => 3,
        };
        let mut log = Digest::default();
        log.push(res_kind);
        log.push(completion);
        log.push(rec.first_poll.unwrap_or(u64::MAX));
        log.push(rec.dropped.unwrap_or(u64::MAX));
        out.log_digest = log.0;
        let mut sig = Digest::default();
        sig.push(match d { 0 => 0, 1 => 1, 2..=100 => 2, _ => 3 });
        sig.push(case.inner as u64);
        sig.push(match inner_done { None => 9, Some(t) if t < deadline => 0, Some(t) if t == deadline => 1, _ => 2 });
        sig.push(match gap { 0 => 0, g if g <= d => 1, _ => 2 });
        sig.push(res_kind);
        out.abstract_sig = sig.0;
        out.sim_ms = completion;
        out.nontrivial = inner_done.map(|t| t.abs_diff(deadline) <= 2).unwrap_or(true);
        out.count(match res_kind { 1 => "probe.inner_ok_returned", 2 => "probe.inner_err_returned", 3 => "probe.timeout_returned", _ => "probe.never_resolved" });
        if inner_done == Some(deadline) {
            out.count("probe.inner_completes_exactly_at_deadline");
        }
        if gap > d {
            out.count("probe.first_poll_after_deadline");
        }
        let mut viol = |rule: &str, detail: String| {
            out.violations.push(Violation::new("C19", rule, json!({"layer": "timeout_future"}), detail));
        };
        // the earliest instant the caller can observe anything is its first poll
        let effective_deadline = deadline.max(first_poll);
        match &result {
            Err(_) => viol("never_resolves", format!("request with timeout {} ms issued at {} never resolved", d, issue)),
            Ok(r) => {
                if completion > effective_deadline {
                    viol("deadline_overrun", format!("resolved at {} ms, later than issue {} + d {} (first poll at {})", completion, issue, d, first_poll));
                }
                match r {
                    Ok(_) | Err(E::Inner) => {
                        let expect_ok = case.inner == Inner::Ok;
                        if matches!(r, Ok(_)) != expect_ok {
                            viol("inner_result_altered", format!("inner outcome {:?} was returned as {:?}", case.inner, r));
                        }
                        match inner_done {
                            Some(t) if t == completion => {}
                            other => viol("inner_result_time", format!("inner result returned at {} but the inner future completed at {:?}", completion, other)),
                        }
                    }
                    Err(E::Timeout) => {
                        if completion < deadline {
                            viol("timeout_too_early", format!("timeout error at {} ms before the deadline {} ms", completion, deadline));
                        }
                        if let Some(t) = inner_done {
                            if t < effective_deadline {
                                viol("timeout_despite_result", format!("inner future completed at {} < deadline {} but the timeout error was returned", t, effective_deadline));
                            }
                        }
                    }
                }
                // the inner work is dropped when the request resolves, and never polled afterwards
                match rec.dropped {
                    Some(t) if t == completion => {}
                    other => viol("inner_not_dropped", format!("request resolved at {} but the inner future was dropped at {:?}", completion, other)),
                }
                if rec.polls_after_finish > 0 || rec.last_poll.map(|t| t > completion).unwrap_or(false) {
                    viol("inner_polled_after_resolution", "inner future polled after the request resolved".into());
                }
            }
        }
        drop(viol);
        out
    }

    fn shrink(&self, case: &TimerCase) -> Vec<TimerCase> {
        let mut v = vec![];
        if case.issue_at_ms > 0 {
            let mut c = case.clone();
            c.issue_at_ms = 0;
            v.push(c);
        }
        if case.first_poll_gap_ms > 0 {
            let mut c = case.clone();
            c.first_poll_gap_ms = 0;
            v.push(c);
        }
        for d in [0, 1, 20] {
            if case.d_ms > d {
                let mut c = case.clone();
                c.d_ms = d;
                v.push(c);
            }
        }
        for l in [0, 1, 21] {
            if case.latency_ms > l {
                let mut c = case.clone();
                c.latency_ms = l;
                v.push(c);
            }
        }
        v
    }
}
