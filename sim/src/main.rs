//! hdsim — deterministic simulation of alexrudy/hyperdriver with fault injection.
//!
//! hdsim check <PROPERTY> [--tier quick|thorough] [--seed N] [--runs N] [--threads N]
//! hdsim replay <file> [--machine]
//! hdsim determinism <PROPERTY> [--runs N]       (prints one digest per run, for cross-process diffing)

mod e2e;
mod eyesim;
mod framework;
mod iosim;
mod net;
mod tlsfix;
mod poolsim;
mod realconnect;
mod rng;
mod simrt;
mod timersim;

use std::path::PathBuf;
use std::time::Instant;

use framework::*;
use serde_json::{json, Value};

fn usage() -> ! {
    eprintln!("usage: hdsim check <PROPERTY> [--tier quick|thorough] [--seed N] [--runs N] [--threads N]\n       hdsim replay <file> [--machine]\n       hdsim determinism <PROPERTY> [--runs N] [--seed N]");
    std::process::exit(2);
}

struct Args {
    cmd: String,
    target: String,
    tier: Tier,
    seed: u64,
    runs: Option<u64>,
    threads: usize,
    machine: bool,
    start: u64,
}

fn parse_args() -> Args {
    let mut it = std::env::args().skip(1);
    let cmd = it.next().unwrap_or_else(|| usage());
    let target = it.next().unwrap_or_else(|| usage());
    let mut tier = match std::env::var("VERIF_TIER").ok().as_deref() {
        Some("thorough") => Tier::Thorough,
        _ => Tier::Quick,
    };
    let mut seed = std::env::var("VERIF_SEED")
        .ok()
        .and_then(|s| parse_u64(&s))
        .unwrap_or(DEFAULT_SEED);
    let mut runs = None;
    let mut threads = std::thread::available_parallelism().map(|n| n.get()).unwrap_or(4);
    let mut machine = false;
    let mut start = 0u64;
    let mut tier_set_by_flag = false;
    while let Some(a) = it.next() {
        match a.as_str() {
            "--tier" => {
                tier = match it.next().as_deref() {
                    Some("quick") => Tier::Quick,
                    Some("thorough") => Tier::Thorough,
                    _ => usage(),
                };
                tier_set_by_flag = true;
            }
            "--seed" => seed = it.next().and_then(|s| parse_u64(&s)).unwrap_or_else(|| usage()),
            "--runs" => runs = Some(it.next().and_then(|s| parse_u64(&s)).unwrap_or_else(|| usage())),
            "--threads" => threads = it.next().and_then(|s| s.parse().ok()).unwrap_or_else(|| usage()),
            "--machine" => machine = true,
            "--start" => start = it.next().and_then(|s| parse_u64(&s)).unwrap_or_else(|| usage()),
            _ => usage(),
        }
    }
    let _ = tier_set_by_flag;
    Args { cmd, target, tier, seed, runs, threads, machine, start }
}

fn parse_u64(s: &str) -> Option<u64> {
    if let Some(h) = s.strip_prefix("0x") {
        u64::from_str_radix(h, 16).ok()
    } else {
        s.parse::<u64>().ok().or_else(|| s.parse::<i64>().ok().map(|v| v as u64))
    }
}

fn run_part<S: Scenario>(sc: &S, cfg: &RunCfg, known: &KnownFindings, verdict: &mut Verdict) -> Part {
    let stats = run_batch(sc, cfg);
    verdict.harness_errors.extend(stats.harness_errors.iter().cloned());
    settle(sc, cfg, &stats, known, verdict);
    Part { engine: sc.engine(), info: sc.info(), stats }
}

fn leak(s: &str) -> &'static str {
    Box::leak(s.to_string().into_boxed_str())
}

fn level_of(property: &str) -> &'static str {
    match property {
        "C08" | "C09" | "C12" => "fault_enumeration",
        _ => "exploration",
    }
}

fn check(args: &Args) -> i32 {
    let property = args.target.as_str();
    let known = load_known_findings();
    let mut verdict = Verdict { violations: 0, known: 0, harness_errors: vec![], lines: vec![], replays: vec![] };
    let start = Instant::now();
    let cfg = |profile: &str| RunCfg {
        tier: args.tier,
        seed: args.seed,
        threads: args.threads,
        runs_override: args.runs,
        property: property.to_string(),
        profile: profile.to_string(),
    };
    let mut parts: Vec<Part> = vec![];
    let extra = json!({});
    match property {
        "C10" | "C11" => {
            let sc = eyesim::EyeSim { property: if property == "C10" { "C10" } else { "C11" } };
            parts.push(run_part(&sc, &cfg("eyesim"), &known, &mut verdict));
            // the wiring of TcpTransport to the eyeballs core, over real loopback sockets
            let rc = realconnect::RealConnectSim { property: if property == "C10" { "C10" } else { "C11" } };
            parts.push(run_part(&rc, &cfg("realconnect"), &known, &mut verdict));
        }
        "C01" => {
            parts.push(run_part(&e2e::E2eSim, &cfg("e2esim"), &known, &mut verdict));
        }
        "C07" => {
            parts.push(run_part(&e2e::shutdown::ShutdownSim, &cfg("shutdown"), &known, &mut verdict));
        }
        "C08" => {
            parts.push(run_part(&e2e::sniff::SniffSim, &cfg("sniff"), &known, &mut verdict));
        }
        "C13" => {
            parts.push(run_part(&e2e::wire::WireSim, &cfg("wire"), &known, &mut verdict));
        }
        "C12" => {
            parts.push(run_part(&e2e::tlsmode::TlsSim, &cfg("tlsmode"), &known, &mut verdict));
        }
        "C09" => {
            parts.push(run_part(&e2e::srvfault::SrvFaultSim, &cfg("srvfault"), &known, &mut verdict));
            // the TCP and Unix acceptors over real loopback / Unix sockets, system-call order decided by the harness
            parts.push(run_part(&e2e::realsock::RealSockSim, &cfg("realsock"), &known, &mut verdict));
        }
        "C18" => {
            parts.push(run_part(&iosim::IoSim, &cfg("iosim"), &known, &mut verdict));
            // the TCP / Unix wrappers and Braid arms over real kernel sockets (fault-free)
            parts.push(run_part(&iosim::RealIoSim, &cfg("realio"), &known, &mut verdict));
        }
        "C02" | "C03" | "C04" | "C05" | "C06" | "C14" | "C15" | "C17" | "C19" => {
            if property == "C19" {
                parts.push(run_part(&timersim::TimerSim, &cfg("timersim"), &known, &mut verdict));
                // the timeout layer in its place in the client's stack (redirects below it)
                parts.push(run_part(&e2e::E2eTimeoutSim, &cfg("e2etimeout"), &known, &mut verdict));
            }
            let sc = poolsim::PoolSim { property: leak(property) };
            parts.push(run_part(&sc, &cfg("poolsim"), &known, &mut verdict));
            if property == "C06" {
                // the transport must connect to the authority of the URI (real TcpTransport, static resolver)
                parts.push(run_part(&realconnect::RealConnectSim { property: "C06" }, &cfg("realconnect"), &known, &mut verdict));
            }
            if property == "C15" {
                // the same bound seen through a client built by Client::builder()
                parts.push(run_part(&e2e::E2eIdleSim, &cfg("e2eidle"), &known, &mut verdict));
            }
            if property == "C02" {
                // the real HttpConnection (stubbed in poolsim) under the real pool: rule busy_connection_handed_out
                parts.push(run_part(&e2e::E2eSim, &cfg("e2esim"), &known, &mut verdict));
            }
            if property == "C17" {
                parts.push(run_part(&e2e::grammar::GrammarSim, &cfg("grammar"), &known, &mut verdict));
                // panics seen while running the ordinary end-to-end workload count as well
                parts.push(run_part(&e2e::E2eSim, &cfg("e2esim"), &known, &mut verdict));
            }
        }
        _ => {
            eprintln!("HARNESS-ERROR: no check registered for property {}", property);
            return 2;
        }
    }
    let wall = start.elapsed().as_secs_f64();
    write_evidence(property, level_of(property), &cfg("-"), &parts, &verdict, wall, extra);
    for l in &verdict.lines {
        println!("{}", l);
    }
    let evals: u64 = parts.iter().map(|p| p.stats.evaluations).sum();
    println!(
        "hdsim: property={} tier={} seed={} runs={} violations={} known_finding_hits={} wall={:.1}s",
        property,
        args.tier.name(),
        args.seed,
        evals,
        verdict.violations,
        verdict.known,
        wall
    );
    if !verdict.harness_errors.is_empty() {
        for e in &verdict.harness_errors {
            eprintln!("HARNESS-ERROR: {}", e);
        }
        return 2;
    }
    if verdict.violations > 0 {
        1
    } else {
        0
    }
}

fn replay_with<S: Scenario>(sc: &S, rf: &ReplayFile, machine: bool) -> i32 {
    let case: S::Case = match serde_json::from_value(rf.case.clone()) {
        Ok(c) => c,
        Err(e) => {
            eprintln!("HARNESS-ERROR: replay case does not parse: {}", e);
            return 2;
        }
    };
    let out = sc.execute(&case);
    let hit = out
        .violations
        .iter()
        .find(|v| v.property == rf.property && v.rule == rf.rule && v.signature == rf.signature)
        .or_else(|| out.violations.iter().find(|v| v.property == rf.property && v.rule == rf.rule))
        .or_else(|| out.violations.iter().find(|v| v.property == rf.property));
    if machine {
        match hit {
            Some(v) => println!(
                "REPLAY-RESULT {}",
                json!({"property": v.property, "rule": v.rule, "signature": v.signature, "log_digest": out.log_digest})
            ),
            None => println!("REPLAY-RESULT {}", json!({"property": Value::Null, "log_digest": out.log_digest})),
        }
        return 0;
    }
    match hit {
        Some(v) => {
            println!("VIOLATION property={} replay=(replayed)", v.property);
            println!("  rule={} signature={} detail={}", v.rule, v.signature, v.detail);
            println!("  log_digest={} (recorded {})", out.log_digest, rf.log_digest);
            for other in out.violations.iter().filter(|o| *o != v) {
                println!("  also: property={} rule={} {}", other.property, other.rule, other.detail);
            }
            1
        }
        None => {
            println!("replay: no violation of {} reproduced (log_digest {} recorded {})", rf.property, out.log_digest, rf.log_digest);
            0
        }
    }
}

fn replay(args: &Args) -> i32 {
    let rf = read_replay(&PathBuf::from(&args.target));
    {
        // a replayed run is bounded in wall-clock time as well; for a "does_not_terminate" finding
        // running into the bound is the reproduction
        let expect_hang = rf.rule == "does_not_terminate";
        let limit: u64 = std::env::var("VERIF_RUN_WALL_LIMIT_S").ok().and_then(|v| v.parse().ok()).unwrap_or(if expect_hang { 120 } else { 1800 });
        let (property, rule, signature) = (rf.property.clone(), rf.rule.clone(), rf.signature.clone());
        let machine = args.machine;
        std::thread::spawn(move || {
            std::thread::sleep(std::time::Duration::from_secs(limit));
            if expect_hang {
                if machine {
                    println!("REPLAY-RESULT {}", json!({"property": property, "rule": rule, "signature": signature, "log_digest": 0}));
                    std::process::exit(0);
                }
                println!("VIOLATION property={} replay=(replayed)", property);
                println!("  rule={} signature={} detail=the replayed run did not finish within {} s of wall-clock time", rule, signature, limit);
                std::process::exit(1);
            }
            println!("HARNESS-ERROR: replay did not finish within {} s of wall-clock time", limit);
            std::process::exit(2);
        });
    }
    match rf.engine.as_str() {
        "eyesim" => replay_with(&eyesim::EyeSim { property: "C10" }, &rf, args.machine),
        "iosim" => replay_with(&iosim::IoSim, &rf, args.machine),
        "e2esim" => replay_with(&e2e::E2eSim, &rf, args.machine),
        "e2eidle" => replay_with(&e2e::E2eIdleSim, &rf, args.machine),
        "e2etimeout" => replay_with(&e2e::E2eTimeoutSim, &rf, args.machine),
        "shutdown" => replay_with(&e2e::shutdown::ShutdownSim, &rf, args.machine),
        "sniff" => replay_with(&e2e::sniff::SniffSim, &rf, args.machine),
        "grammar" => replay_with(&e2e::grammar::GrammarSim, &rf, args.machine),
        "wire" => replay_with(&e2e::wire::WireSim, &rf, args.machine),
        "tlsmode" => replay_with(&e2e::tlsmode::TlsSim, &rf, args.machine),
        "srvfault" => replay_with(&e2e::srvfault::SrvFaultSim, &rf, args.machine),
        "realsock" => replay_with(&e2e::realsock::RealSockSim, &rf, args.machine),
        "realio" => replay_with(&iosim::RealIoSim, &rf, args.machine),
        "realconnect" => replay_with(&realconnect::RealConnectSim { property: "C10" }, &rf, args.machine),
        "timersim" => replay_with(&timersim::TimerSim, &rf, args.machine),
        "poolsim" => replay_with(&poolsim::PoolSim { property: leak(&rf.property) }, &rf, args.machine),
        other => {
            eprintln!("HARNESS-ERROR: unknown engine {} in replay file", other);
            2
        }
    }
}

fn determinism_with<S: Scenario>(sc: &S, args: &Args) -> i32 {
    let runs = args.runs.unwrap_or(2000);
    let (n_enum, _) = sc.num_cases(args.tier);
    for i in args.start..args.start + runs {
        // skip the enumerated prefix: seeds are what we want to compare
        let idx = n_enum + i;
        let seed = run_seed(args.seed, idx);
        let case = sc.case(idx, seed, args.tier);
        if std::env::var("VERIF_SHOW_CASE").is_ok() {
            eprintln!("case {}: {}", i, serde_json::to_string(&case).unwrap_or_default());
        }
        let out = sc.execute(&case);
        println!("{} {} {:016x} {}", i, seed, out.log_digest, out.violations.len());
    }
    0
}

fn determinism(args: &Args) -> i32 {
    match args.target.as_str() {
        "C18" => determinism_with(&iosim::IoSim, args),
        "C01" => determinism_with(&e2e::E2eSim, args),
        "e2eidle" => determinism_with(&e2e::E2eIdleSim, args),
        "e2etimeout" => determinism_with(&e2e::E2eTimeoutSim, args),
        "C07" => determinism_with(&e2e::shutdown::ShutdownSim, args),
        "C08" => determinism_with(&e2e::sniff::SniffSim, args),
        "C13" => determinism_with(&e2e::wire::WireSim, args),
        "C12" => determinism_with(&e2e::tlsmode::TlsSim, args),
        "C09" | "srvfault" => determinism_with(&e2e::srvfault::SrvFaultSim, args),
        "realsock" => determinism_with(&e2e::realsock::RealSockSim, args),
        "realio" => determinism_with(&iosim::RealIoSim, args),
        "realconnect" => determinism_with(&realconnect::RealConnectSim { property: "C10" }, args),
        "timersim" => determinism_with(&timersim::TimerSim, args),
        "grammar" => determinism_with(&e2e::grammar::GrammarSim, args),
        "C10" | "C11" | "eyesim" => determinism_with(&eyesim::EyeSim { property: "C10" }, args),
        "C02" | "C03" | "C04" | "C05" | "C06" | "C14" | "C15" | "C17" | "C19" => {
            determinism_with(&poolsim::PoolSim { property: leak(&args.target) }, args)
        }
        other => {
            eprintln!("HARNESS-ERROR: unknown target {}", other);
            2
        }
    }
}

fn main() {
    if let Ok(filter) = std::env::var("VERIF_LOG") {
        // development aid: library trace output (never enabled by the registered checks)
        let _ = tracing_subscriber::fmt()
            .with_env_filter(tracing_subscriber::EnvFilter::new(filter))
            .with_writer(std::io::stderr)
            .without_time()
            .try_init();
    }
    simrt::install_panic_hook();
    let args = parse_args();
    let code = match args.cmd.as_str() {
        "check" => check(&args),
        "replay" => replay(&args),
        "determinism" => determinism(&args),
        _ => usage(),
    };
    std::process::exit(code);
}
