//! Engine C: hyperdriver's `EyeballSet` (happy eyeballs) driven in virtual time with scripted
//! attempts. Decides C10 (result) and C11 (pacing / order / bound / deadline).

use std::cell::RefCell;
use std::future::Future;
use std::pin::Pin;
use std::rc::Rc;
use std::task::{Context, Poll};
use std::time::Duration;

use hyperdriver::verif_hooks::{EyeballSet, HappyEyeballsError};
use serde::{Deserialize, Serialize};
use serde_json::json;

use crate::framework::{Outcome, Scenario, ScenarioInfo, Tier, Violation};
use crate::rng::{Digest, Rng};
use crate::simrt;

#[derive(Clone, Copy, Debug, Serialize, Deserialize, PartialEq, Eq)]
pub enum Script {
    Ok,
    Err,
    Never,
}

#[derive(Clone, Debug, Serialize, Deserialize)]
pub struct Attempt {
    pub outcome: Script,
    pub latency_ms: u64,
}

#[derive(Clone, Debug, Serialize, Deserialize)]
pub struct EyeCase {
    pub delay_ms: Option<u64>,
    pub timeout_ms: Option<u64>,
    pub concurrency: Option<usize>,
    pub attempts: Vec<Attempt>,
}

const LATENCIES: [u64; 7] = [0, 1, 5, 10, 50, 100, 1000];
const DELAYS: [Option<u64>; 4] = [None, Some(0), Some(10), Some(50)];
const TIMEOUTS: [Option<u64>; 4] = [None, Some(0), Some(30), Some(200)];
const HORIZON_MS: u64 = 3_600_000;

#[derive(Default, Clone, Debug)]
struct Rec {
    start: Option<u64>,
    finish: Option<u64>,
    dropped: Option<u64>,
    polls_after_done: u32,
    start_seq: Option<u64>,
}

struct Shared {
    t0: tokio::time::Instant,
    recs: Vec<Rec>,
    seq: u64,
    completed_at: Option<u64>,
    polled_after_completion: bool,
}

struct Scripted {
    idx: usize,
    outcome: Script,
    latency: Duration,
    sleep: Option<Pin<Box<tokio::time::Sleep>>>,
    shared: Rc<RefCell<Shared>>,
    done: bool,
}

impl Future for Scripted {
    type Output = Result<usize, usize>;
    fn poll(mut self: Pin<&mut Self>, cx: &mut Context<'_>) -> Poll<Self::Output> {
        let now = simrt::ms_since(self.shared.borrow().t0);
        {
            let mut sh = self.shared.borrow_mut();
            if sh.completed_at.is_some() {
                sh.polled_after_completion = true;
            }
            if self.done {
                sh.recs[self.idx].polls_after_done += 1;
            }
            if sh.recs[self.idx].start.is_none() {
                sh.recs[self.idx].start = Some(now);
                let s = sh.seq;
                sh.recs[self.idx].start_seq = Some(s);
                sh.seq += 1;
            }
        }
        if self.sleep.is_none() {
            let lat = self.latency;
            self.sleep = Some(Box::pin(tokio::time::sleep(lat)));
        }
        match self.sleep.as_mut().unwrap().as_mut().poll(cx) {
            Poll::Pending => Poll::Pending,
            Poll::Ready(()) => match self.outcome {
                Script::Never => Poll::Pending, // never completes, never wakes again
                Script::Ok => {
                    let now = simrt::ms_since(self.shared.borrow().t0);
                    self.shared.borrow_mut().recs[self.idx].finish = Some(now);
                    self.done = true;
                    Poll::Ready(Ok(self.idx))
                }
                Script::Err => {
                    let now = simrt::ms_since(self.shared.borrow().t0);
                    self.shared.borrow_mut().recs[self.idx].finish = Some(now);
                    self.done = true;
                    Poll::Ready(Err(self.idx))
                }
            },
        }
    }
}

impl Drop for Scripted {
    fn drop(&mut self) {
        let mut sh = self.shared.borrow_mut();
        let now = tokio::time::Instant::now().duration_since(sh.t0).as_millis() as u64;
        sh.recs[self.idx].dropped = Some(now);
    }
}

#[derive(Debug, Clone, PartialEq, Eq)]
enum Res {
    Ok(usize),
    Error(usize),
    Timeout,
    NoProgress,
    Hang,
}

pub struct EyeSim {
    pub property: &'static str,
}

fn enumerated_case(mut index: u64, n: usize) -> EyeCase {
    // mixed radix: conc (n+2) x timeout 4 x delay 4 x (outcome 3 x latency 7)^n
    let conc_choices = n as u64 + 2;
    let c = index % conc_choices;
    index /= conc_choices;
    let t = index % 4;
    index /= 4;
    let d = index % 4;
    index /= 4;
    let mut attempts = vec![];
    for _ in 0..n {
        let o = index % 3;
        index /= 3;
        let l = index % 7;
        index /= 7;
        attempts.push(Attempt {
            outcome: [Script::Ok, Script::Err, Script::Never][o as usize],
            latency_ms: LATENCIES[l as usize],
        });
    }
    EyeCase {
        delay_ms: DELAYS[d as usize],
        timeout_ms: TIMEOUTS[t as usize],
        concurrency: if c == 0 { None } else { Some(c as usize - 1) },
        attempts,
    }
}

fn grid_size(n: usize) -> u64 {
    (n as u64 + 2) * 16 * 21u64.pow(n as u32)
}

impl EyeSim {
    fn max_enum_n(tier: Tier) -> usize {
        match tier {
            Tier::Quick => 2,
            Tier::Thorough => 3,
        }
    }
}

impl Scenario for EyeSim {
    type Case = EyeCase;

    fn engine(&self) -> &'static str {
        "eyesim"
    }

    fn info(&self) -> ScenarioInfo {
        ScenarioInfo {
            rule: "EyeballSet over scripted attempts (outcome ok/err/never x latency grid) x stagger delay x overall timeout x initial concurrency, in tokio paused virtual time; N<=2 (quick) / N<=3 (thorough) enumerated completely, N<=6 seeded random incl. off-grid latencies. Non-trivial: N>=2 and at least one attempt started after t0 or a timeout/deadline involved; distinct = hash of (config class, outcome vector, order of start/finish events, result kind).".into(),
            real: vec!["hyperdriver::happy_eyeballs::EyeballSet (finish/process_all/join_next_with_timeout)", "tokio::time (paused clock, timeout, sleep)", "futures_util::FuturesUnordered"],
            stub: vec!["connection attempts (scripted futures: latency + outcome)", "TcpConnecting (real sockets, not run)"],
            assumptions: vec!["tokio's paused clock and timer ordering are trusted", "ties between a success, a failure and a stagger tick at the same millisecond are not judged for pacing (either order is legal)"],
        }
    }

    fn num_cases(&self, tier: Tier) -> (u64, u64) {
        let mut e = 0;
        for n in 0..=Self::max_enum_n(tier) {
            e += grid_size(n);
        }
        let r = match tier {
            Tier::Quick => 150_000,
            Tier::Thorough => 6_000_000,
        };
        (e, r)
    }

    fn case(&self, index: u64, seed: u64, tier: Tier) -> EyeCase {
        let mut idx = index;
        for n in 0..=Self::max_enum_n(tier) {
            let g = grid_size(n);
            if idx < g {
                return enumerated_case(idx, n);
            }
            idx -= g;
        }
        let mut r = Rng::keyed(seed, "eye");
        let n = r.range(0, 6) as usize;
        let lat = |r: &mut Rng| -> u64 {
            if r.chance(3, 4) {
                *r.pick(&LATENCIES)
            } else {
                r.range(0, 300)
            }
        };
        let attempts = (0..n)
            .map(|_| Attempt {
                outcome: *r.weighted(&[(3, Script::Ok), (5, Script::Err), (2, Script::Never)]),
                latency_ms: lat(&mut r),
            })
            .collect();
        let delay_ms = if r.chance(3, 4) { *r.pick(&DELAYS) } else { Some(r.range(0, 120)) };
        let timeout_ms = if r.chance(3, 4) { *r.pick(&TIMEOUTS) } else { Some(r.range(0, 400)) };
        let concurrency = if r.chance(1, 3) { None } else { Some(r.range(0, n as u64 + 1) as usize) };
        EyeCase { delay_ms, timeout_ms, concurrency, attempts }
    }

    fn execute(&self, case: &EyeCase) -> Outcome {
        simrt::install_panic_hook();
        let mut out = Outcome::default();
        let rt = simrt::runtime();
        let n = case.attempts.len();
        let (res, shared, completion) = rt.block_on(async {
            let t0 = tokio::time::Instant::now();
            let shared = Rc::new(RefCell::new(Shared {
                t0,
                recs: vec![Rec::default(); n],
                seq: 0,
                completed_at: None,
                polled_after_completion: false,
            }));
            let mut set: EyeballSet<Scripted, usize, usize> = EyeballSet::new(
                case.delay_ms.map(Duration::from_millis),
                case.timeout_ms.map(Duration::from_millis),
                case.concurrency,
            );
            for (i, a) in case.attempts.iter().enumerate() {
                set.push(Scripted {
                    idx: i,
                    outcome: a.outcome,
                    latency: Duration::from_millis(a.latency_ms),
                    sleep: None,
                    shared: shared.clone(),
                    done: false,
                });
            }
            // not Send (Rc): drive `finish` directly, then drop the set (as IntoFuture would).
            let fut = async {
                let r = set.finish().await;
                drop(set);
                r
            };
            let r = tokio::time::timeout(Duration::from_millis(HORIZON_MS), fut).await;
            let completion = simrt::ms_since(t0);
            shared.borrow_mut().completed_at = Some(completion);
            let res = match r {
                Err(_) => Res::Hang,
                Ok(Ok(i)) => Res::Ok(i),
                Ok(Err(HappyEyeballsError::Error(i))) => Res::Error(i),
                Ok(Err(HappyEyeballsError::Timeout(_))) => Res::Timeout,
                Ok(Err(HappyEyeballsError::NoProgress)) => Res::NoProgress,
                Ok(Err(_)) => Res::NoProgress,
            };
            (res, shared, completion)
        });
        drop(rt);
        let panics = simrt::take_panics();
        for p in panics {
            out.violations.push(Violation::new(
                self.property,
                "panic",
                json!({"location": p.location()}),
                format!("panic in EyeballSet run: {} at {}", p.message, p.location()),
            ));
        }
        let sh = shared.borrow();
        let recs = &sh.recs;

        // ---- event log + abstract signature
        let mut log = Digest::default();
        let mut sig = Digest::default();
        sig.push(case.delay_ms.map(|d| if d == 0 { 1 } else { 2 }).unwrap_or(0));
        sig.push(case.timeout_ms.map(|d| if d == 0 { 1 } else { 2 }).unwrap_or(0));
        sig.push(case.concurrency.map(|c| c as u64 + 1).unwrap_or(0));
        let mut events: Vec<(u64, u64, u64)> = vec![]; // (time, kind, idx)
        for (i, r) in recs.iter().enumerate() {
            sig.push(case.attempts[i].outcome as u64);
            if let Some(s) = r.start {
                events.push((s, 0, i as u64));
            }
            if let Some(f) = r.finish {
                events.push((f, 1, i as u64));
            }
            log.push(r.start.unwrap_or(u64::MAX));
            log.push(r.finish.unwrap_or(u64::MAX));
            log.push(r.dropped.unwrap_or(u64::MAX));
        }
        events.sort();
        for (_, k, i) in &events {
            sig.push(k * 16 + i);
        }
        let res_kind = match &res {
            Res::Ok(i) => 100 + *i as u64,
            Res::Error(i) => 200 + *i as u64,
            Res::Timeout => 1,
            Res::NoProgress => 2,
            Res::Hang => 3,
        };
        sig.push(res_kind);
        log.push(res_kind);
        log.push(completion);
        out.abstract_sig = sig.0;
        out.log_digest = log.0;
        out.sim_ms = completion.min(HORIZON_MS);
        let late_starts = recs.iter().filter(|r| r.start.map(|s| s > 0).unwrap_or(false)).count();
        out.nontrivial = n >= 2 && (late_starts > 0 || matches!(res, Res::Timeout) || case.timeout_ms.is_some());
        match &res {
            Res::Ok(_) => out.count("probe.result_ok"),
            Res::Error(_) => out.count("probe.result_error"),
            Res::Timeout => out.count("probe.result_timeout"),
            Res::NoProgress => out.count("probe.result_no_progress"),
            Res::Hang => out.count("probe.result_pending_forever"),
        }
        if late_starts > 0 {
            out.count("probe.attempt_started_after_t0");
        }
        if case.attempts.iter().any(|a| a.outcome == Script::Never) {
            out.count("fault.attempt_never_completes");
        }
        if case.attempts.iter().any(|a| a.outcome == Script::Err) {
            out.count("fault.attempt_fails");
            out.faulty = true;
        }

        let fin = |i: usize| -> Option<u64> {
            // scripted finish instant given the actual start
            match (recs[i].start, case.attempts[i].outcome) {
                (Some(s), Script::Ok) | (Some(s), Script::Err) => Some(s + case.attempts[i].latency_ms),
                _ => None,
            }
        };
        let deadline = case.timeout_ms; // relative to t0 = 0
        let viols: RefCell<Vec<Violation>> = RefCell::new(Vec::new());
        let viol = |prop: &str, rule: &str, detail: String| {
            viols.borrow_mut().push(Violation::new(
                prop,
                rule,
                json!({"result": format!("{:?}", res).split('(').next().unwrap_or("").to_string()}),
                detail,
            ));
        };

        // ===================== C10: result =====================
        match &res {
            Res::Ok(i) => {
                let i = *i;
                if i >= n || recs[i].start.is_none() || case.attempts[i].outcome != Script::Ok {
                    viol("C10", "ok_of_non_success", format!("result Ok({}) but that attempt was not a started success", i));
                } else {
                    let fi = fin(i).unwrap();
                    if fi != completion {
                        viol("C10", "ok_not_at_completion", format!("Ok({}) finished at {} but operation completed at {}", i, fi, completion));
                    }
                    for j in 0..n {
                        if j != i && case.attempts[j].outcome == Script::Ok {
                            if let Some(fj) = fin(j) {
                                if fj < fi {
                                    viol("C10", "later_success_won", format!("attempt {} succeeded at {} before the returned attempt {} at {}", j, fj, i, fi));
                                }
                            }
                        }
                    }
                    if let Some(t) = deadline {
                        if fi > t {
                            viol("C10", "ok_after_deadline", format!("Ok at {} after overall deadline {}", fi, t));
                        }
                    }
                }
            }
            Res::Error(e) => {
                let e = *e;
                let all_started = recs.iter().all(|r| r.start.is_some());
                let all_err = case.attempts.iter().all(|a| a.outcome == Script::Err);
                if n == 0 || !all_started || !all_err {
                    viol("C10", "error_before_all_failed", format!("Err(Error({})) but started_all={} all_fail={} n={}", e, all_started, all_err, n));
                } else {
                    let first = (0..n).filter_map(fin).min().unwrap();
                    if fin(e) != Some(first) {
                        viol("C10", "not_first_error", format!("returned error of attempt {} (failed at {:?}) but first failure was at {}", e, fin(e), first));
                    }
                    let last = (0..n).filter_map(fin).max().unwrap();
                    if completion != last {
                        viol("C10", "error_not_at_last_failure", format!("completed at {} but last failure at {}", completion, last));
                    }
                }
            }
            Res::Timeout => match deadline {
                None => viol("C10", "timeout_without_deadline", "Err(Timeout) with no overall timeout configured".into()),
                Some(t) => {
                    if completion != t {
                        viol("C10", "timeout_not_at_deadline", format!("Err(Timeout) at {} but deadline is {}", completion, t));
                    }
                    for j in 0..n {
                        if case.attempts[j].outcome == Script::Ok {
                            if let Some(fj) = fin(j) {
                                if fj < t {
                                    viol("C10", "timeout_despite_success", format!("attempt {} would succeed at {} < deadline {}", j, fj, t));
                                }
                            }
                        }
                    }
                }
            },
            Res::NoProgress => {
                if n != 0 {
                    viol("C10", "no_progress_with_candidates", format!("NoProgress with {} candidates", n));
                } else if completion != 0 {
                    viol("C10", "no_progress_not_immediate", format!("NoProgress at {}", completion));
                }
            }
            Res::Hang => {
                // legal only without a deadline, with nothing that succeeds, and something that never completes
                let some_ok = (0..n).any(|j| case.attempts[j].outcome == Script::Ok && fin(j).is_some());
                let some_never_started = (0..n).any(|j| case.attempts[j].outcome == Script::Never && recs[j].start.is_some());
                if deadline.is_some() {
                    viol("C10", "deadline_overrun", "operation still pending at the horizon although an overall timeout is configured".into());
                } else if some_ok {
                    viol("C10", "hang_despite_success", "operation pending forever although a started attempt succeeds".into());
                } else if !some_never_started {
                    viol("C10", "hang_without_cause", "operation pending forever although every started attempt completes".into());
                }
            }
        }
        if n == 0 && res != Res::NoProgress {
            viol("C10", "empty_set_result", format!("empty candidate set produced {:?}", res));
        }
        // success must win whenever a started attempt succeeds before the deadline
        if !matches!(res, Res::Ok(_)) {
            for j in 0..n {
                if case.attempts[j].outcome == Script::Ok {
                    if let Some(fj) = fin(j) {
                        let before_deadline = deadline.map(|t| fj < t).unwrap_or(true);
                        if before_deadline && fj < completion {
                            viol("C10", "success_ignored", format!("attempt {} succeeded at {} but result is {:?} at {}", j, fj, res, completion));
                        }
                    }
                }
            }
        }

        // ===================== C11: pacing =====================
        // order, at-most-once
        let mut last_seq = None;
        let mut seen_unstarted = false;
        for (i, r) in recs.iter().enumerate() {
            match r.start_seq {
                Some(s) => {
                    if seen_unstarted {
                        viol("C11", "start_out_of_order", format!("attempt {} started although an earlier candidate was never started", i));
                    }
                    if let Some(l) = last_seq {
                        if s < l {
                            viol("C11", "start_out_of_order", format!("attempt {} started before attempt {}", i, i - 1));
                        }
                    }
                    last_seq = Some(s);
                }
                None => seen_unstarted = true,
            }
            if r.polls_after_done > 0 {
                viol("C11", "polled_after_done", format!("attempt {} polled again after completing", i));
            }
        }
        // overall deadline
        if let Some(t) = deadline {
            if completion > t {
                viol("C11", "deadline_overrun", format!("completed at {} > deadline {}", completion, t));
            }
            for (i, r) in recs.iter().enumerate() {
                if let Some(s) = r.start {
                    if s > t {
                        viol("C11", "start_after_deadline", format!("attempt {} started at {} after deadline {}", i, s, t));
                    }
                }
            }
        }
        // nothing starts after completion; everything dropped by completion
        if !matches!(res, Res::Hang) {
            for (i, r) in recs.iter().enumerate() {
                if let Some(s) = r.start {
                    if s > completion {
                        viol("C11", "start_after_result", format!("attempt {} started at {} after the result at {}", i, s, completion));
                    }
                }
                match r.dropped {
                    Some(d) if d <= completion => {}
                    other => viol("C11", "attempt_not_dropped", format!("attempt {} dropped at {:?}, completion {}", i, other, completion)),
                }
            }
            if sh.polled_after_completion {
                viol("C11", "polled_after_result", "an attempt was polled after the operation completed".into());
            }
        }
        // reference pacing model (exact until the first tie)
        let c_eff = case.concurrency.unwrap_or(n).max(if n > 0 { 1 } else { 0 }).min(n);
        let end = match &res {
            Res::Hang => u64::MAX,
            _ => completion,
        };
        let mut ambiguous = false;
        // initial batch
        for (i, r) in recs.iter().enumerate().take(c_eff) {
            if r.start != Some(0) {
                // legal only if the operation was over before it could start (deadline 0 / instant success)
                if end == 0 {
                    ambiguous = true;
                } else {
                    viol("C11", "initial_batch_late", format!("attempt {} of the initial batch (size {}) started at {:?}, expected 0", i, c_eff, r.start));
                }
            }
        }
        let mut consumed = vec![false; n];
        let mut k = c_eff;
        let mut last_start = 0u64;
        while k < n && !ambiguous {
            let tick = case.delay_ms.map(|d| last_start + d);
            // earliest unconsumed completion among started attempts j<k
            let mut ok_t: Option<u64> = None;
            let mut err_t: Option<(u64, usize)> = None;
            let mut err_ties = 0;
            for j in 0..k {
                if consumed[j] {
                    continue;
                }
                if let Some(f) = fin(j) {
                    match case.attempts[j].outcome {
                        Script::Ok => ok_t = Some(ok_t.map(|o: u64| o.min(f)).unwrap_or(f)),
                        Script::Err => match err_t {
                            Some((t, _)) if f > t => {}
                            Some((t, _)) if f == t => err_ties += 1,
                            _ => {
                                err_t = Some((f, j));
                                err_ties = 0;
                            }
                        },
                        Script::Never => {}
                    }
                }
            }
            let _ = err_ties;
            let cand = [tick, ok_t, err_t.map(|e| e.0), deadline].into_iter().flatten().min();
            let Some(t) = cand else {
                // nothing will ever trigger another start
                if recs[k].start.is_some() {
                    viol("C11", "start_without_trigger", format!("attempt {} started at {:?} although neither a stagger tick nor a failure could trigger it", k, recs[k].start));
                }
                break;
            };
            let hits = [tick == Some(t), ok_t == Some(t), err_t.map(|e| e.0) == Some(t), deadline == Some(t)]
                .iter()
                .filter(|x| **x)
                .count();
            if hits > 1 {
                // tie between different kinds of event: either order is legal, stop judging pacing
                ambiguous = true;
                out.count("probe.pacing_tie_not_judged");
                break;
            }
            if ok_t == Some(t) || deadline == Some(t) {
                // operation ends here; later candidates must never start
                for (j, r) in recs.iter().enumerate().skip(k) {
                    if r.start.is_some() {
                        viol("C11", "start_after_end", format!("attempt {} started at {:?} although the operation ends at {}", j, r.start, t));
                    }
                }
                break;
            }
            // a stagger tick or a failure at t: attempt k must start exactly then
            if let Some((ft, j)) = err_t {
                if ft == t {
                    consumed[j] = true;
                    out.count("probe.start_triggered_by_failure");
                }
            }
            if tick == Some(t) {
                out.count("probe.start_triggered_by_stagger");
            }
            match recs[k].start {
                Some(s) if s == t => {}
                Some(s) if s < t => viol("C11", "started_too_early", format!("attempt {} started at {} but earliest legal start is {} (delay {:?}, last start {})", k, s, t, case.delay_ms, last_start)),
                other => viol("C11", "started_too_late", format!("attempt {} started at {:?} but should start at {} (delay {:?}, last start {})", k, other, t, case.delay_ms, last_start)),
            }
            last_start = recs[k].start.unwrap_or(t);
            k += 1;
        }
        if !ambiguous {
            out.count("probe.pacing_judged_exactly");
        }
        out.violations.extend(viols.into_inner());
        // de-duplicate identical violations (same rule) within a run
        out.violations.dedup_by(|a, b| a.rule == b.rule && a.property == b.property);
        out
    }

    fn shrink(&self, case: &EyeCase) -> Vec<EyeCase> {
        let mut v = vec![];
        for i in 0..case.attempts.len() {
            let mut c = case.clone();
            c.attempts.remove(i);
            if let Some(k) = c.concurrency {
                c.concurrency = Some(k.min(c.attempts.len() + 1));
            }
            v.push(c);
        }
        if case.timeout_ms.is_some() {
            let mut c = case.clone();
            c.timeout_ms = None;
            v.push(c);
        }
        if case.delay_ms.is_some() {
            let mut c = case.clone();
            c.delay_ms = None;
            v.push(c);
        }
        if case.concurrency.is_some() {
            let mut c = case.clone();
            c.concurrency = None;
            v.push(c);
            if case.concurrency != Some(1) {
                let mut c = case.clone();
                c.concurrency = Some(1);
                v.push(c);
            }
        }
        for i in 0..case.attempts.len() {
            for l in [0u64, 1, 10] {
                if case.attempts[i].latency_ms > l {
                    let mut c = case.clone();
                    c.attempts[i].latency_ms = l;
                    v.push(c);
                }
            }
            if case.attempts[i].outcome == Script::Never {
                let mut c = case.clone();
                c.attempts[i].outcome = Script::Err;
                v.push(c);
            }
        }
        for (field, vals) in [(0, [0u64, 10, 50]), (1, [0u64, 30, 200])] {
            for val in vals {
                let mut c = case.clone();
                let slot = if field == 0 { &mut c.delay_ms } else { &mut c.timeout_ms };
                if let Some(cur) = *slot {
                    if cur > val {
                        *slot = Some(val);
                        v.push(c);
                    }
                }
            }
        }
        v
    }
}
