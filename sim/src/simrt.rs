//! Per-run tokio runtime (current thread, paused clock) and the process-wide panic monitor.

use std::cell::RefCell;
use std::sync::Once;

#[derive(Clone, Debug)]
pub struct PanicRec {
    pub file: String,
    pub line: u32,
    pub message: String,
}

/// Message of a panic the harness raises on purpose, as a fault: user code that the library
/// calls (a connection's response future) panics while the library holds its own state.
pub const INJECTED_PANIC: &str = "sim: injected panic in user code below the pool";

impl PanicRec {
    pub fn is_injected(&self) -> bool {
        self.message.contains(INJECTED_PANIC)
    }
    pub fn in_harness(&self) -> bool {
        // A future of the harness that is polled again after it completed was polled by the
        // library (the harness polls each of its own futures to completion exactly once): the
        // message comes from the compiler-generated state machine, the fault is the caller's.
        if self.message.contains("resumed after completion") || self.message.contains("polled after completion") {
            return false;
        }
        self.file.contains("/verif/sim/") || self.file.starts_with("src/") && !self.file.contains("/repo/")
            && std::path::Path::new("/verif/sim").join(&self.file).exists()
    }
    pub fn location(&self) -> String {
        // strip the absolute prefix so signatures survive moving the checkout
        let f = self
            .file
            .rsplit_once("/repo/")
            .map(|(_, r)| r.to_string())
            .unwrap_or_else(|| {
                // dependency sources: keep crate dir + file
                let parts: Vec<&str> = self.file.split('/').collect();
                let n = parts.len();
                parts[n.saturating_sub(3)..].join("/")
            });
        format!("{}:{}", f, self.line)
    }
}

thread_local! {
    static PANICS: RefCell<Vec<PanicRec>> = const { RefCell::new(Vec::new()) };
}

static HOOK: Once = Once::new();

pub fn install_panic_hook() {
    HOOK.call_once(|| {
        let debug = std::env::var("VERIF_DEBUG").is_ok();
        std::panic::set_hook(Box::new(move |info| {
            let (file, line) = info
                .location()
                .map(|l| (l.file().to_string(), l.line()))
                .unwrap_or_else(|| ("<unknown>".to_string(), 0));
            let message = if let Some(s) = info.payload().downcast_ref::<&str>() {
                s.to_string()
            } else if let Some(s) = info.payload().downcast_ref::<String>() {
                s.clone()
            } else {
                "<non-string panic payload>".to_string()
            };
            if debug {
                eprintln!("[panic] {}:{}: {}", file, line, message);
            }
            PANICS.with(|p| p.borrow_mut().push(PanicRec { file, line, message }));
        }));
    });
}

pub fn take_panics() -> Vec<PanicRec> {
    PANICS.with(|p| std::mem::take(&mut *p.borrow_mut()))
}

pub fn runtime() -> tokio::runtime::Runtime {
    tokio::runtime::Builder::new_current_thread()
        .enable_time()
        .start_paused(true)
        .build()
        .expect("runtime")
}

/// Milliseconds since the runtime's start instant.
pub fn ms_since(t0: tokio::time::Instant) -> u64 {
    tokio::time::Instant::now().duration_since(t0).as_millis() as u64
}
