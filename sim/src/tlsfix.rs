//! TLS fixtures: a private RSA CA and leaves generated once by /verif/fixtures/gen.sh and
//! compiled in. Certificate validity is checked against a fixed simulated wall clock, which is
//! the clock seam for TLS (rustls `TimeProvider`).

use std::sync::Arc;

use rustls::pki_types::pem::PemObject;
use rustls::pki_types::{CertificateDer, PrivateKeyDer, UnixTime};
use rustls::time_provider::TimeProvider;
use serde::{Deserialize, Serialize};

const CA: &str = include_str!("../../fixtures/ca.pem");
const GOOD: (&str, &str) = (include_str!("../../fixtures/good.pem"), include_str!("../../fixtures/good.key"));
const MISMATCH: (&str, &str) = (include_str!("../../fixtures/mismatch.pem"), include_str!("../../fixtures/mismatch.key"));
const UNTRUSTED: (&str, &str) = (include_str!("../../fixtures/untrusted.pem"), include_str!("../../fixtures/untrusted.key"));
const EXPIRED: (&str, &str) = (include_str!("../../fixtures/expired.pem"), include_str!("../../fixtures/expired.key"));

/// 2030-06-01T00:00:00Z: inside the validity of every fixture except `expired`.
pub const SIM_WALL_CLOCK: u64 = 1_906_502_400;

#[derive(Debug)]
struct FixedTime(u64);

impl TimeProvider for FixedTime {
    fn current_time(&self) -> Option<UnixTime> {
        Some(UnixTime::since_unix_epoch(std::time::Duration::from_secs(self.0)))
    }
}

#[derive(Clone, Copy, Debug, Serialize, Deserialize, PartialEq, Eq)]
pub enum CertKind {
    Good,
    Mismatch,
    Untrusted,
    Expired,
}

fn provider() -> Arc<rustls::crypto::CryptoProvider> {
    Arc::new(rustls::crypto::ring::default_provider())
}

pub fn client_config(alpn: &[&str]) -> Arc<rustls::ClientConfig> {
    let mut roots = rustls::RootCertStore::empty();
    for c in CertificateDer::pem_slice_iter(CA.as_bytes()) {
        roots.add(c.expect("ca pem")).expect("add root");
    }
    let mut cfg = rustls::ClientConfig::builder_with_details(provider(), Arc::new(FixedTime(SIM_WALL_CLOCK)))
        .with_safe_default_protocol_versions()
        .expect("protocol versions")
        .with_root_certificates(roots)
        .with_no_client_auth();
    cfg.alpn_protocols = alpn.iter().map(|a| a.as_bytes().to_vec()).collect();
    Arc::new(cfg)
}

/// A client configuration that trusts nobody (empty root store) and offers another ALPN list: what
/// a transport is configured with *first* in the re-configuration cases - it must not survive.
pub fn client_config_trusting_nobody() -> Arc<rustls::ClientConfig> {
    let mut cfg = rustls::ClientConfig::builder_with_details(provider(), Arc::new(FixedTime(SIM_WALL_CLOCK)))
        .with_safe_default_protocol_versions()
        .expect("protocol versions")
        .with_root_certificates(rustls::RootCertStore::empty())
        .with_no_client_auth();
    cfg.alpn_protocols = vec![b"sim-other".to_vec()];
    Arc::new(cfg)
}

pub fn server_config(kind: CertKind, alpn: &[&str]) -> Arc<rustls::ServerConfig> {
    let (cert, key) = match kind {
        CertKind::Good => GOOD,
        CertKind::Mismatch => MISMATCH,
        CertKind::Untrusted => UNTRUSTED,
        CertKind::Expired => EXPIRED,
    };
    let certs: Vec<CertificateDer<'static>> = CertificateDer::pem_slice_iter(cert.as_bytes()).map(|c| c.expect("leaf pem")).collect();
    let key = PrivateKeyDer::from_pem_slice(key.as_bytes()).expect("leaf key");
    let mut cfg = rustls::ServerConfig::builder_with_details(provider(), Arc::new(FixedTime(SIM_WALL_CLOCK)))
        .with_safe_default_protocol_versions()
        .expect("protocol versions")
        .with_no_client_auth()
        .with_single_cert(certs, key)
        .expect("server cert");
    cfg.alpn_protocols = alpn.iter().map(|a| a.as_bytes().to_vec()).collect();
    Arc::new(cfg)
}

/// Certificate resolver that records the SNI of every ClientHello it sees.
#[derive(Debug)]
pub struct RecordingResolver {
    key: Arc<rustls::sign::CertifiedKey>,
    pub seen: Arc<parking_lot::Mutex<Vec<Option<String>>>>,
}

impl rustls::server::ResolvesServerCert for RecordingResolver {
    fn resolve(&self, hello: rustls::server::ClientHello<'_>) -> Option<Arc<rustls::sign::CertifiedKey>> {
        self.seen.lock().push(hello.server_name().map(|s| s.to_string()));
        Some(self.key.clone())
    }
}

pub fn server_config_recording(kind: CertKind, alpn: &[&str], seen: Arc<parking_lot::Mutex<Vec<Option<String>>>>) -> Arc<rustls::ServerConfig> {
    let (cert, key) = match kind {
        CertKind::Good => GOOD,
        CertKind::Mismatch => MISMATCH,
        CertKind::Untrusted => UNTRUSTED,
        CertKind::Expired => EXPIRED,
    };
    let certs: Vec<CertificateDer<'static>> = CertificateDer::pem_slice_iter(cert.as_bytes()).map(|c| c.expect("leaf pem")).collect();
    let key = PrivateKeyDer::from_pem_slice(key.as_bytes()).expect("leaf key");
    let provider = provider();
    let signing = provider.key_provider.load_private_key(key).expect("signing key");
    let ck = Arc::new(rustls::sign::CertifiedKey::new(certs, signing));
    let mut cfg = rustls::ServerConfig::builder_with_details(provider, Arc::new(FixedTime(SIM_WALL_CLOCK)))
        .with_safe_default_protocol_versions()
        .expect("protocol versions")
        .with_no_client_auth()
        .with_cert_resolver(Arc::new(RecordingResolver { key: ck, seen }));
    cfg.alpn_protocols = alpn.iter().map(|a| a.as_bytes().to_vec()).collect();
    Arc::new(cfg)
}
