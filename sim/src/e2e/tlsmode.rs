//! Engine B, mode `tls` (C12): hyperdriver's TLS transport (and the client stack on top of it)
//! against real and misbehaving peers. The raw bytes the peer receives, the SNI the server
//! sees, the certificate outcome and the client's result are checked for every combination of
//! scheme, host form, certificate and handshake fault.

use std::collections::BTreeMap;
use std::sync::Arc;
use std::time::Duration;

use parking_lot::Mutex;
use serde::{Deserialize, Serialize};
use serde_json::json;
use tokio::io::{AsyncReadExt, AsyncWriteExt};
use tower::ServiceExt;

use super::infra::*;
use crate::framework::{Outcome, Scenario, ScenarioInfo, Tier, Violation};
use crate::net::{IoMode, SimStream};
use crate::rng::{Digest, Rng};
use crate::tlsfix::CertKind;
use crate::{simrt, tlsfix};

#[derive(Clone, Debug, Serialize, Deserialize, PartialEq)]
pub enum Peer {
    /// a real hyperdriver server with TLS on its acceptor
    RealTls,
    /// a real hyperdriver server without TLS
    RealPlain,
    /// accepts and closes at once
    RawClose,
    /// answers whatever arrives with a plaintext HTTP response
    RawPlaintext,
    /// produces the genuine TLS server flight for the ClientHello it receives, sends only the
    /// first `at` bytes of it, then closes (`stall` = false) or goes silent (`stall` = true)
    RawTruncated { at: usize, stall: bool },
}

#[derive(Clone, Debug, Serialize, Deserialize)]
pub struct TlsCase {
    pub seed: u64,
    pub scheme: String,
    pub host: String,
    pub port: Option<u16>,
    pub cert: CertKind,
    pub client_alpn_h2: bool,
    pub server_alpn_h2: bool,
    pub peer: Peer,
    pub io_faulty: bool,
    /// go through the whole client stack (Client builder) instead of the bare transport
    pub via_client: bool,
    /// pool history: the same pooled client first completes a plain `http://host:port` request to
    /// the same host and port, so that an idle clear-text connection to that endpoint exists when
    /// the https / wss request is issued
    #[serde(default)]
    pub prior_plain: bool,
    /// a Host header supplied by the caller (naming another host than the URI does): the TLS
    /// server name and the certificate check follow the URI, never this header
    #[serde(default)]
    pub host_header: Option<String>,
    /// this many *more* requests (all labelled HTTP/2, each in its own task) are issued at the same
    /// instant through the same pooled client: they share - or queue behind - one connection
    /// attempt, and each of them must get the response or the handshake's error
    #[serde(default)]
    pub concurrent: u8,
    /// a transport fault on the first connection: (towards the server?, end-of-stream or reset,
    /// after this many bytes) - at 0 the very first write or read of the handshake fails
    #[serde(default)]
    pub pipe_fault: Option<(bool, crate::net::FaultKind, u64)>,
    /// (bare transport only) TLS is configured twice: first with a configuration that trusts
    /// nobody, then with the real one - the configuration given last is the one in force
    #[serde(default)]
    pub reconfigure: bool,
}

pub struct TlsSim;

/// (`bad~host.example` is a legal URI host that is no legal TLS server name: no handshake can be
/// made for it, so a TLS scheme must fail)
const HOSTS: [&str; 10] = ["sim.test", "SIM.Test", "a.test", "127.0.0.1", "10.0.0.7", "[::1]", "other.example", "10.0.0.9", "[2001:db8::5]", "bad~host.example"];
const SCHEMES: [&str; 8] = ["https", "wss", "http", "ws", "foo", "HTTPS", "Wss", "HTTP"];

/// hosts covered by the SANs of the `good` fixture certificate
fn host_in_good_cert(host: &str) -> bool {
    matches!(host.to_ascii_lowercase().as_str(), "sim.test" | "a.test" | "b.test" | "localhost" | "127.0.0.1" | "10.0.0.7" | "[::1]")
}

fn is_ip_literal(host: &str) -> bool {
    host.starts_with('[') || host.parse::<std::net::Ipv4Addr>().is_ok()
}

/// Order of the builder calls for cases that go through `Client::builder()` (see ClientCfg::order):
/// a function of the case, so that the enumerated grid covers every order.
fn order_of(c: &TlsCase) -> u8 {
    (crate::rng::fnv1a(format!("{}{}{:?}{:?}{:?}", c.scheme, c.host, c.port, c.cert, c.peer).as_bytes()) % 24) as u8
}

fn uri_of(c: &TlsCase) -> String {
    match c.port {
        Some(p) => format!("{}://{}:{}/r/1/tls?q=1", c.scheme, c.host, p),
        None => format!("{}://{}/r/1/tls?q=1", c.scheme, c.host),
    }
}

async fn raw_peer(mut s: SimStream, peer: Peer, cert: CertKind) {
    match peer {
        Peer::RawClose => drop(s),
        Peer::RawPlaintext => {
            let mut b = [0u8; 512];
            let _ = tokio::time::timeout(Duration::from_millis(200), s.read(&mut b)).await;
            let _ = s.write_all(b"HTTP/1.1 200 OK\r\ncontent-length: 2\r\nx-req-id: 1\r\n\r\nok").await;
            let _ = s.flush().await;
            let _ = tokio::time::timeout(Duration::from_millis(500), s.read(&mut b)).await;
        }
        Peer::RawTruncated { at, stall } => {
            // feed the ClientHello to a real rustls server to obtain the genuine first flight
            let cfg = tlsfix::server_config(cert, &[]);
            let mut conn = match rustls::ServerConnection::new(cfg) {
                Ok(c) => c,
                Err(_) => return,
            };
            let mut inbuf: Vec<u8> = vec![];
            let mut flight: Vec<u8> = vec![];
            let mut tmp = [0u8; 2048];
            for _ in 0..64 {
                match tokio::time::timeout(Duration::from_secs(5), s.read(&mut tmp)).await {
                    Ok(Ok(n)) if n > 0 => inbuf.extend_from_slice(&tmp[..n]),
                    _ => break,
                }
                let mut cur = std::io::Cursor::new(&inbuf[..]);
                let mut consumed = 0;
                while (cur.position() as usize) < inbuf.len() {
                    match conn.read_tls(&mut cur) {
                        Ok(0) | Err(_) => break,
                        Ok(_) => consumed = cur.position() as usize,
                    }
                }
                inbuf.drain(..consumed);
                if conn.process_new_packets().is_err() {
                    break;
                }
                while conn.wants_write() {
                    if conn.write_tls(&mut flight).is_err() {
                        break;
                    }
                }
                if !flight.is_empty() {
                    break;
                }
            }
            let n = at.min(flight.len());
            let _ = s.write_all(&flight[..n]).await;
            let _ = s.flush().await;
            if stall {
                tokio::time::sleep(Duration::from_secs(40)).await;
            }
        }
        _ => {}
    }
}


impl TlsSim {
    /// The https / wss request is issued by a pooled client that holds an idle clear-text
    /// connection to the same host and port. It must not travel on that connection.
    fn execute_with_plain_history(&self, case: &TlsCase) -> Outcome {
        let mut out = Outcome::default();
        let rt = simrt::runtime();
        let local = tokio::task::LocalSet::new();
        let uri = uri_of(case);
        let port = case.port.unwrap_or(8443);
        let plain_uri = format!("http://{}:{}/r/2/p", case.host, port);
        let result = std::panic::catch_unwind(std::panic::AssertUnwindSafe(|| {
            local.block_on(&rt, async {
                crate::net::reset_ops();
                let pump = tokio::task::spawn_local(crate::net::time_pump());
                let _g = super::AbortOnDrop(pump);
                let net = Network::new(case.seed, NetPlan::plain());
                let log = Arc::new(Mutex::new(HandlerLog::default()));
                let mut plans = BTreeMap::new();
                plans.insert(1u32, HandlerPlan { resp_len: 300, ..HandlerPlan::default() });
                plans.insert(2u32, HandlerPlan { resp_len: 20, ..HandlerPlan::default() });
                let plans = Arc::new(plans);
                let key = |u: &str| origin_key(&u.parse::<http::Uri>().expect("uri"));
                let (tls_origin, plain_origin) = (key(&uri), key(&plain_uri));
                let mut servers = vec![];
                for (o, tls) in [(plain_origin.clone(), false), (tls_origin.clone(), true)] {
                    let acc = net.listen(&o);
                    let cfg = if tls { Some(tlsfix::server_config(case.cert, &["http/1.1"])) } else { None };
                    let ctx = HandlerCtx { net: net.clone(), log: log.clone(), plans: plans.clone(), origin: o.clone() };
                    servers.push(tokio::task::spawn_local(async move {
                        let _ = run_server(acc, ServerProto::Auto, cfg, ctx, SimExecutor::default(), None).await;
                    }));
                }
                let cfg = super::ClientCfg { pool: true, idle_timeout_ms: None, max_idle: 32, continue_after_preemption: true, alpn_h2: false, timeout_ms: None, order: order_of(case), busy: 0 };
                let svc = super::build_client(&net, &cfg, true);
                let send = |u: String, id: u32| {
                    let svc = svc.clone();
                    async move {
                        let req = http::Request::builder().method("GET").uri(u.as_str()).header("x-req-id", id.to_string()).header("x-body-len", "0").body(ChunkBody::default()).unwrap();
                        match svc.oneshot(req).await {
                            Ok(resp) => {
                                use http_body_util::BodyExt;
                                let _ = resp.into_body().collect().await;
                                Ok(())
                            }
                            Err(e) => Err(format!("{}", e)),
                        }
                    }
                };
                let first = tokio::time::timeout(Duration::from_secs(60), send(plain_uri.clone(), 2)).await.unwrap_or(Err("HANG".into()));
                // let the finished connection travel back to the pool
                tokio::time::sleep(Duration::from_millis(5)).await;
                let second = tokio::time::timeout(Duration::from_secs(120), send(uri.clone(), 1)).await.unwrap_or(Err("HANG".into()));
                for s in servers {
                    s.abort();
                }
                let dialed_for_tls = net.inner.lock().conns.iter().filter(|c| c.origin == tls_origin).count();
                let seen = log.lock().seen.clone();
                (first, second, dialed_for_tls, seen, tls_origin, plain_origin)
            })
        }));
        drop(local);
        drop(rt);
        let psig = |kind: &str| json!({"kind": kind, "host_form": if case.host.starts_with('[') { "ipv6" } else if is_ip_literal(&case.host) { "ipv4" } else { "name" }});
        for p in simrt::take_panics() {
            if p.in_harness() {
                out.harness_error = Some(format!("harness panic {} at {}", p.message, p.location()));
            } else {
                out.violations.push(Violation::new("C12", "panic", json!({"location": p.location(), "host_form": psig("x")["host_form"]}), format!("{} after {} panicked: {} at {}", uri, plain_uri, p.message, p.location())));
            }
        }
        let Ok((first, second, dialed_for_tls, seen, tls_origin, plain_origin)) = result else { return out };
        out.count("probe.tls_request_with_idle_plaintext_connection_to_same_endpoint");
        if first.is_err() {
            // the history could not be set up (the plain request failed): nothing to judge
            out.count("probe.plain_history_failed");
        }
        for s in seen.iter().filter(|s| s.id == 1) {
            if origin_key(&s.origin.parse::<http::Uri>().expect("origin")) == plain_origin {
                out.violations.push(Violation::new(
                    "C12",
                    "cleartext_on_tls_scheme",
                    psig("reused_plaintext_connection"),
                    format!("{} (issued after {} had left an idle connection in the pool) was handled by the clear-text server of {}: it travelled on the pooled plaintext connection", uri, plain_uri, plain_origin),
                ));
            }
        }
        if second.is_ok() && dialed_for_tls == 0 {
            out.violations.push(Violation::new("C12", "cleartext_on_tls_scheme", psig("no_tls_connection_dialed"), format!("{} succeeded although no connection was dialed for {}", uri, tls_origin)));
        }
        let cert_ok = case.cert == CertKind::Good && host_in_good_cert(&case.host);
        if second.is_ok() != cert_ok && first.is_ok() {
            let rule = if second.is_ok() { "accepted_bad_peer" } else { "rejected_good_peer" };
            out.violations.push(Violation::new("C12", rule, psig("verification"), format!("{} after a plain request to the same endpoint: result {:?}, certificate valid for the host: {}", uri, second.as_ref().err(), cert_ok)));
        }
        let mut sig = Digest::default();
        sig.push_str("history");
        sig.push_str(&case.scheme);
        sig.push_str(&case.host);
        sig.push(case.port.unwrap_or(0) as u64);
        sig.push(case.cert as u64);
        out.abstract_sig = sig.0;
        let mut log = Digest::default();
        log.push(first.is_ok() as u64);
        log.push(second.is_ok() as u64);
        log.push(dialed_for_tls as u64);
        log.push(seen.len() as u64);
        out.log_digest = log.0;
        out.nontrivial = true;
        out.faulty = case.cert != CertKind::Good;
        out
    }
}

impl Scenario for TlsSim {
    type Case = TlsCase;

    fn engine(&self) -> &'static str {
        "tlsmode"
    }

    fn info(&self) -> ScenarioInfo {
        ScenarioInfo {
            rule: "TlsTransport over the simulated transport (and, in part of the runs, the whole Client stack on top) x scheme {https, wss, http, ws, foo} x host {DNS name, mixed-case name, name not in the certificate, IPv4 literal in / not in the certificate, bracketed IPv6 literal in / not in the certificate} x port x server certificate {good, wrong name, untrusted CA, expired against the simulated wall clock} x ALPN offers x peer {real hyperdriver TLS server, real plaintext server, closes at once, answers in plaintext, genuine server flight truncated at every 1/40th of its length then close or stall}; enumerated for the fault-free I/O mode, seeded random with fragmentation. Oracle: first bytes at the peer are a TLS handshake record for https/wss and the plaintext request otherwise; SNI at the server = URI host (none for IP literals); success iff the certificate is valid for the URI host; on failure the caller gets an error, exactly one dial, no application bytes in clear; no panic. Non-trivial: TLS scheme with a peer that is not the happy path; distinct = the case tuple with the truncation offset bucketed.".into(),
            real: vec![
                "client::conn::transport::{TlsTransport, TransportExt::with_tls, tls::TlsTransportWrapper, TlsConnectionFuture}, client::conn::stream::{Stream::tls, tls::TlsStream}, stream::tls::TlsBraid",
                "server side for the real-peer cases: Acceptor::with_tls, TlsAcceptor, server TlsStream, auto::Builder",
                "client::Builder::build_service stack in the via_client runs",
                "rustls 0.23 / tokio-rustls certificate verification and handshake",
            ],
            stub: vec!["network (SimNet)", "misbehaving peers (harness; the truncated flight is produced by a real rustls ServerConnection for the actual ClientHello)", "certificate fixtures and the wall clock (fixed rustls TimeProvider)"],
            assumptions: vec!["TLS record contents are excluded from the determinism criterion"],
        }
    }

    fn num_cases(&self, tier: Tier) -> (u64, u64) {
        (enumerated().len() as u64, if tier == Tier::Quick { 1500 } else { 150_000 })
    }

    fn case(&self, index: u64, seed: u64, _tier: Tier) -> TlsCase {
        let e = enumerated();
        if (index as usize) < e.len() {
            return e[index as usize].clone();
        }
        let mut r = Rng::keyed(seed, "tls");
        let peer = match r.below(10) {
            0..=3 => Peer::RealTls,
            4 => Peer::RealPlain,
            5 => Peer::RawClose,
            6 => Peer::RawPlaintext,
            _ => Peer::RawTruncated { at: r.range(0, 2600) as usize, stall: r.bool() },
        };
        TlsCase {
            seed,
            scheme: r.pick(&SCHEMES).to_string(),
            host: r.pick(&HOSTS).to_string(),
            port: *r.pick(&[None, Some(443), Some(8443), Some(80)]),
            cert: *r.weighted(&[(5, CertKind::Good), (2, CertKind::Mismatch), (2, CertKind::Untrusted), (2, CertKind::Expired)]),
            client_alpn_h2: r.bool(),
            server_alpn_h2: r.bool(),
            peer,
            io_faulty: r.chance(2, 3),
            via_client: r.chance(1, 3),
            prior_plain: false,
            host_header: if r.chance(1, 4) { Some(r.pick(&["sim.test", "other.example", "a.test:8443", "127.0.0.1"]).to_string()) } else { None },
            concurrent: *Rng::keyed(seed, "tls/concurrent").weighted(&[(3, 0u8), (1, 2), (1, 3)]),
            reconfigure: Rng::keyed(seed, "tls/reconfigure").chance(1, 4),
            pipe_fault: {
                let mut f = Rng::keyed(seed, "tls/pipe_fault");
                if f.chance(1, 4) {
                    Some((f.bool(), *f.pick(&[crate::net::FaultKind::Reset, crate::net::FaultKind::Eof]), *f.pick(&[0u64, 1, 5, 50, 200, 300, 1000, 3000])))
                } else {
                    None
                }
            },
        }
    }

    fn execute(&self, case: &TlsCase) -> Outcome {
        simrt::install_panic_hook();
        let _ = simrt::take_panics();
        let mut out = Outcome::default();
        let rt = simrt::runtime();
        let local = tokio::task::LocalSet::new();
        let uri = uri_of(case);
        let use_tls = matches!(case.scheme.to_ascii_lowercase().as_str(), "https" | "wss");
        // (only through the pooled client, and only where TLS is in play)
        let concurrent = if case.via_client && use_tls { case.concurrent } else { 0 };
        if case.prior_plain && use_tls && case.port.is_some() {
            return self.execute_with_plain_history(case);
        }
        let result = std::panic::catch_unwind(std::panic::AssertUnwindSafe(|| {
            local.block_on(&rt, async {
                crate::net::reset_ops();
                let pump = tokio::task::spawn_local(crate::net::time_pump());
                let _g = super::AbortOnDrop(pump);
                let mut plan = NetPlan::plain();
                plan.io_faulty = case.io_faulty;
                if let Some((c2s, kind, at)) = case.pipe_fault {
                    plan.faults.push(ConnFault { conn: 0, dir: if c2s { Dir::C2S } else { Dir::S2C }, kind, at });
                }
                let net = Network::new(case.seed, plan);
                let log = Arc::new(Mutex::new(HandlerLog::default()));
                let sni_seen = Arc::new(Mutex::new(vec![]));
                let mut plans = BTreeMap::new();
                plans.insert(1u32, HandlerPlan { resp_len: 300, ..HandlerPlan::default() });
                let origin = {
                    let u: http::Uri = uri.parse().expect("case uri");
                    format!("{}://{}", u.scheme_str().unwrap(), u.authority().unwrap())
                };
                let acc = net.listen(&origin);
                let peer_task = match &case.peer {
                    Peer::RealTls | Peer::RealPlain => {
                        let alpn: &[&str] = if case.server_alpn_h2 { &["h2", "http/1.1"] } else { &["http/1.1"] };
                        let tls = if case.peer == Peer::RealTls { Some(tlsfix::server_config_recording(case.cert, alpn, sni_seen.clone())) } else { None };
                        let ctx = HandlerCtx { net: net.clone(), log: log.clone(), plans: Arc::new(plans), origin: origin.clone() };
                        tokio::task::spawn_local(async move {
                            let _ = run_server(acc, ServerProto::Auto, tls, ctx, SimExecutor::default(), None).await;
                        })
                    }
                    other => {
                        let peer = other.clone();
                        let cert = case.cert;
                        tokio::task::spawn_local(async move {
                            // (every connection gets the same treatment: a client that dials again
                            // is judged on the dial count, not left hanging in the listen queue)
                            let mut acc = acc;
                            while let Ok(s) = std::future::poll_fn(|cx| hyperdriver::server::conn::Accept::poll_accept(std::pin::Pin::new(&mut acc), cx)).await {
                                tokio::task::spawn_local(raw_peer(s, peer.clone(), cert));
                            }
                        })
                    }
                };
                let alpn: &[&str] = if case.client_alpn_h2 { &["h2", "http/1.1"] } else { &["http/1.1"] };
                let client_cfg = tlsfix::client_config(alpn);
                // ---- the client attempt
                let attempt = async {
                    if case.via_client {
                        let cfg = super::ClientCfg { pool: true, idle_timeout_ms: None, max_idle: 32, continue_after_preemption: true, alpn_h2: case.client_alpn_h2, timeout_ms: None, order: order_of(case), busy: 0 };
                        let svc = super::build_client(&net, &cfg, true);
                        let make_req = |h2: bool| {
                            let mut rb = http::Request::builder().method("GET").uri(uri.as_str()).header("x-req-id", "1").header("x-body-len", "0");
                            if h2 {
                                rb = rb.version(http::Version::HTTP_2);
                            }
                            if let Some(h) = &case.host_header {
                                rb = rb.header(http::header::HOST, h.as_str());
                            }
                            rb.body(ChunkBody::default()).unwrap()
                        };
                        type One = Result<(u16, Option<String>, Vec<u8>), String>;
                        async fn one(svc: super::ClientSvc, req: http::Request<ChunkBody>) -> One {
                            match svc.oneshot(req).await {
                                Ok(resp) => {
                                    use http_body_util::BodyExt;
                                    let status = resp.status().as_u16();
                                    let id = resp.headers().get("x-req-id").and_then(|v| v.to_str().ok()).map(|s| s.to_string());
                                    let body = resp.into_body().collect().await.map(|b| b.to_bytes().to_vec());
                                    Ok((status, id, body.unwrap_or_default()))
                                }
                                Err(e) => Err(format!("{}", e)),
                            }
                        }
                        if concurrent > 0 {
                            let handles: Vec<_> = (0..=concurrent).map(|_| tokio::task::spawn_local(one(svc.clone(), make_req(true)))).collect();
                            let mut results: Vec<One> = vec![];
                            for h in handles {
                                // (no task ids in the text: they differ from run to run)
                                results.push(h.await.unwrap_or_else(|e| Err(if e.is_panic() { "request task panicked".to_string() } else { "request task cancelled".to_string() })));
                            }
                            if results.iter().all(|r| r.is_ok()) {
                                results.remove(0)
                            } else {
                                Err(results.iter().map(|r| r.as_ref().err().cloned().unwrap_or_else(|| "ok".into())).collect::<Vec<_>>().join(" | "))
                            }
                        } else {
                            one(svc, make_req(false)).await
                        }
                    } else {
                        use hyperdriver::client::conn::transport::TransportExt;
                        let transport = if case.reconfigure {
                            net.transport().with_tls(tlsfix::client_config_trusting_nobody()).with_tls(client_cfg)
                        } else {
                            net.transport().with_tls(client_cfg)
                        };
                        let mut rb = http::Request::get(uri.as_str());
                        if let Some(h) = &case.host_header {
                            rb = rb.header(http::header::HOST, h.as_str());
                        }
                        let parts = rb.body(()).unwrap().into_parts().0;
                        match TransportExt::oneshot(transport, parts).await {
                            Err(e) => Err(format!("{}", e)),
                            Ok(mut stream) => {
                                // the stream is ready: send a request through it and read the answer
                                let reqb = format!("GET /r/1/tls?q=1 HTTP/1.1\r\nhost: {}\r\nx-req-id: 1\r\nx-body-len: 0\r\nconnection: close\r\n\r\n", case.host);
                                let io = async {
                                    stream.write_all(reqb.as_bytes()).await?;
                                    stream.flush().await?;
                                    let mut buf = Vec::new();
                                    let _ = stream.read_to_end(&mut buf).await;
                                    Ok::<_, std::io::Error>(buf)
                                };
                                match io.await {
                                    Ok(buf) => {
                                        let text = String::from_utf8_lossy(&buf).to_string();
                                        let status = text.split_whitespace().nth(1).and_then(|s| s.parse().ok()).unwrap_or(0);
                                        let id = text.to_ascii_lowercase().contains("x-req-id: 1").then(|| "1".to_string());
                                        let body = buf.windows(4).position(|w| w == b"\r\n\r\n").map(|p| buf[p + 4..].to_vec()).unwrap_or_default();
                                        Ok((status, id, body))
                                    }
                                    Err(e) => Err(format!("io after connect: {}", e.kind())),
                                }
                            }
                        }
                    }
                };
                // a hang = no byte has moved on any pipe for two minutes of virtual time while the attempt
                // is unresolved (a slow pipe - one delayed byte at a time - is not a hang)
                let res = {
                    tokio::pin!(attempt);
                    let mut last = crate::net::moved();
                    let mut quiet = 0;
                    loop {
                        match tokio::time::timeout(Duration::from_secs(60), &mut attempt).await {
                            Ok(r) => break r,
                            Err(_) => {
                                let now = crate::net::moved();
                                quiet = if now == last { quiet + 1 } else { 0 };
                                last = now;
                                if quiet >= 2 {
                                    break Err("HANG: no result, and nothing has moved on the connection for two minutes of virtual time".to_string());
                                }
                            }
                        }
                    }
                };
                peer_task.abort();
                let (first, dials, c2s_all) = {
                    let n = net.inner.lock();
                    let first = n.conns.first().and_then(|c| c.c2s.as_ref().map(|p| p.lock().head.clone())).unwrap_or_default();
                    let total: u64 = n.conns.iter().filter_map(|c| c.c2s.as_ref().map(|p| p.lock().written)).sum();
                    (first, n.conns.len(), total)
                };
                let sni = sni_seen.lock().clone();
                let seen = log.lock().seen.clone();
                (res, first, dials, c2s_all, sni, seen)
            })
        }));
        drop(local);
        drop(rt);
        let psig = |kind: &str| json!({"kind": kind, "host_form": if case.host.starts_with('[') { "ipv6" } else if is_ip_literal(&case.host) { "ipv4" } else { "name" }});
        for p in simrt::take_panics() {
            if p.in_harness() {
                out.harness_error = Some(format!("harness panic {} at {}", p.message, p.location()));
            } else {
                let msg: String = p.message.chars().take(100).collect();
                out.violations.push(Violation::new("C12", "panic", json!({"location": p.location(), "host_form": psig("x")["host_form"]}), format!("connecting to {} panicked: {} at {}", uri, msg, p.location())));
            }
        }
        let Ok((res, first, dials, c2s_total, sni, seen)) = result else { return out };
        let mut viol = |rule: &str, kind: &str, detail: String| {
            out.violations.push(Violation::new("C12", rule, psig(kind), detail));
        };
        let ok = res.is_ok();
        // prefix-aware: with one-byte writes and an early reset the peer may have seen a single byte
        let looks_tls = !first.is_empty() && first[0] == 0x16 && (first.len() < 2 || first[1] == 0x03);
        let looks_ascii = !first.is_empty() && first.iter().take(8).all(|b| b.is_ascii_graphic() || *b == b' ');
        // (a)/(e) what the peer sees first
        if use_tls {
            if !first.is_empty() && !looks_tls {
                viol("cleartext_on_tls_scheme", "first_bytes", format!("{}: the peer's first bytes are {:?}, not a TLS handshake record", uri, String::from_utf8_lossy(&first[..first.len().min(24)])));
            }
        } else if !first.is_empty() && !looks_ascii && ok {
            viol("tls_on_plain_scheme", "first_bytes", format!("{}: scheme is not https/wss but the first bytes are not a plaintext request: {:02x?}", uri, &first[..first.len().min(8)]));
        }
        // (d) no retry (several concurrent requests may legitimately dial more than once)
        let transport_fault = case.pipe_fault.is_some();
        if dials > 1 && concurrent == 0 {
            viol("redial_after_failure", "dials", format!("{}: {} dials for one connection attempt", uri, dials));
        }
        if let Err(e) = &res {
            if e.starts_with("HANG") && !matches!(case.peer, Peer::RawTruncated { stall: true, .. }) && !transport_fault {
                viol("handshake_hangs", "hang", format!("{} against {:?}: {}", uri, case.peer, e));
            }
        }
        // success iff everything is in order
        let cert_ok = case.cert == CertKind::Good && host_in_good_cert(&case.host);
        let expect_ok = if use_tls { case.peer == Peer::RealTls && cert_ok } else { matches!(case.peer, Peer::RealPlain | Peer::RawPlaintext) };
        // a peer that forwards the *whole* genuine flight of a server holding a valid certificate has
        // completed a genuine handshake: success is legitimate then (and only then)
        let genuine_full_flight = matches!(case.peer, Peer::RawTruncated { .. }) && cert_ok;
        if use_tls {
            if ok && !expect_ok && !genuine_full_flight {
                viol(
                    "accepted_bad_peer",
                    "verification",
                    format!("{} succeeded although peer={:?} cert={:?} (host covered by the certificate: {})", uri, case.peer, case.cert, host_in_good_cert(&case.host)),
                );
            }
            if !ok && expect_ok && !transport_fault {
                viol("rejected_good_peer", "verification", format!("{} failed against a real TLS server with a valid certificate for that host: {:?}", uri, res.as_ref().err()));
            }
            // handler reached only through verified TLS
            if !expect_ok && !seen.is_empty() {
                viol("request_reached_unverified_peer", "verification", format!("{}: the request reached the handler although the handshake / verification must fail", uri));
            }
            // (b) SNI
            if case.peer == Peer::RealTls {
                for s in &sni {
                    let want = if is_ip_literal(&case.host) { None } else { Some(case.host.to_ascii_lowercase()) };
                    let got = s.as_ref().map(|x| x.to_ascii_lowercase());
                    if got != want {
                        viol("wrong_sni", "sni", format!("{}: server saw SNI {:?}, expected {:?}", uri, s, want));
                    }
                }
            }
        } else if expect_ok && !ok && case.peer == Peer::RealPlain && !transport_fault {
            viol("plain_scheme_failed", "plain", format!("{} against a plaintext server failed: {:?}", uri, res.as_ref().err()));
        }
        if ok && expect_ok {
            if let Ok((status, id, body)) = &res {
                let real = matches!(case.peer, Peer::RealTls | Peer::RealPlain);
                // (a stream cut by an injected transport fault may end anywhere)
                if real && !transport_fault && (*status != status_for(1) || id.as_deref() != Some("1") || body[..] != resp_body(1, 300)[..]) {
                    viol("wrong_response", "response", format!("{}: response over the established stream is wrong (status {}, id {:?}, {} body bytes)", uri, status, id, body.len()));
                }
            }
        }
        drop(viol);
        out.count(if ok { "probe.connect_ok" } else { "probe.connect_err" });
        out.count(&format!("fault.peer_{}", match &case.peer { Peer::RealTls => "real_tls", Peer::RealPlain => "real_plain", Peer::RawClose => "closes", Peer::RawPlaintext => "plaintext_answer", Peer::RawTruncated { stall: true, .. } => "tls_stall", Peer::RawTruncated { .. } => "tls_truncated" }));
        if case.cert != CertKind::Good && use_tls {
            out.count(&format!("fault.cert_{:?}", case.cert).to_lowercase());
        }
        let mut sig = Digest::default();
        sig.push_str(&case.scheme);
        sig.push_str(&case.host);
        sig.push(case.port.unwrap_or(0) as u64);
        sig.push(case.cert as u64);
        sig.push(case.client_alpn_h2 as u64 * 2 + case.server_alpn_h2 as u64);
        sig.push_str(&match &case.peer { Peer::RawTruncated { at, stall } => format!("trunc{}-{}", at / 64, stall), p => format!("{:?}", p) });
        sig.push(case.via_client as u64 + 2 * concurrent as u64 + 16 * (case.reconfigure && !case.via_client) as u64);
        sig.push_str(case.host_header.as_deref().unwrap_or("-"));
        if let Some((c2s, kind, at)) = case.pipe_fault {
            sig.push(1 + c2s as u64 + 2 * (kind == crate::net::FaultKind::Reset) as u64 + 4 * at.min(301));
            out.count(&format!("fault.transport_{:?}_under_tls", kind).to_lowercase());
        }
        out.abstract_sig = sig.0;
        let mut log = Digest::default();
        log.push(ok as u64);
        log.push(dials as u64);
        log.push(if use_tls { 0 } else { c2s_total });
        log.push(seen.len() as u64);
        out.log_digest = log.0;
        out.nontrivial = use_tls && !(case.peer == Peer::RealTls && cert_ok);
        out.faulty = case.io_faulty || !matches!(case.peer, Peer::RealTls | Peer::RealPlain) || case.cert != CertKind::Good;
        out
    }

    fn shrink(&self, case: &TlsCase) -> Vec<TlsCase> {
        let mut v = vec![];
        if case.io_faulty {
            let mut c = case.clone();
            c.io_faulty = false;
            v.push(c);
        }
        if case.concurrent > 0 {
            let mut c = case.clone();
            c.concurrent -= 1;
            v.push(c);
        }
        if case.pipe_fault.is_some() && (case.io_faulty || case.concurrent > 0 || case.host_header.is_some()) {
            let mut c = case.clone();
            c.io_faulty = false;
            c.concurrent = 0;
            c.host_header = None;
            v.push(c);
        }
        if case.via_client && case.concurrent == 0 {
            let mut c = case.clone();
            c.via_client = false;
            v.push(c);
        }
        if case.port.is_some() {
            let mut c = case.clone();
            c.port = None;
            v.push(c);
        }
        if case.client_alpn_h2 || case.server_alpn_h2 {
            let mut c = case.clone();
            c.client_alpn_h2 = false;
            c.server_alpn_h2 = false;
            v.push(c);
        }
        if case.cert != CertKind::Good {
            let mut c = case.clone();
            c.cert = CertKind::Good;
            v.push(c);
        }
        if case.peer != Peer::RealTls {
            let mut c = case.clone();
            c.peer = Peer::RealTls;
            v.push(c);
        }
        v
    }
}

fn enumerated() -> Vec<TlsCase> {
    let mut v = vec![];
    let base = |scheme: &str, host: &str, cert: CertKind, peer: Peer| TlsCase {
        seed: 3,
        scheme: scheme.to_string(),
        host: host.to_string(),
        port: None,
        cert,
        client_alpn_h2: false,
        server_alpn_h2: false,
        peer,
        io_faulty: false,
        via_client: false,
        prior_plain: false,
        host_header: None,
        concurrent: 0,
        pipe_fault: None,
        reconfigure: false,
    };
    // TLS configured twice on the transport: the later configuration wins
    for (peer, cert) in [(Peer::RealTls, CertKind::Good), (Peer::RealTls, CertKind::Untrusted), (Peer::RawClose, CertKind::Good)] {
        for scheme in ["https", "wss"] {
            for host in ["sim.test", "127.0.0.1"] {
                let mut c = base(scheme, host, cert, peer.clone());
                c.reconfigure = true;
                v.push(c);
            }
        }
    }
    // the transport fails under the handshake (or later): an error, never a panic, never clear text
    for at in [0u64, 1, 5, 50, 200, 300, 1000, 3000] {
        for kind in [crate::net::FaultKind::Reset, crate::net::FaultKind::Eof] {
            for c2s in [true, false] {
                for via_client in [false, true] {
                    let mut c = base("https", "sim.test", CertKind::Good, Peer::RealTls);
                    c.via_client = via_client;
                    c.pipe_fault = Some((c2s, kind, at));
                    v.push(c);
                }
            }
        }
    }
    // several requests behind one connection attempt whose handshake fails, or succeeds
    for (peer, cert) in [
        (Peer::RawClose, CertKind::Good),
        (Peer::RealTls, CertKind::Good),
        (Peer::RealTls, CertKind::Untrusted),
        (Peer::RealTls, CertKind::Expired),
        (Peer::RawPlaintext, CertKind::Good),
        (Peer::RawTruncated { at: 100, stall: false }, CertKind::Good),
        (Peer::RawTruncated { at: 1500, stall: false }, CertKind::Mismatch),
    ] {
        for scheme in ["https", "wss"] {
            for (c_h2, s_h2) in [(false, false), (true, true)] {
                for concurrent in [1u8, 2, 3] {
                    let mut c = base(scheme, "sim.test", cert, peer.clone());
                    c.via_client = true;
                    c.client_alpn_h2 = c_h2;
                    c.server_alpn_h2 = s_h2;
                    c.concurrent = concurrent;
                    v.push(c);
                }
            }
        }
    }
    // a caller-supplied Host header that names another host than the URI
    for (host, hdr) in [("other.example", "sim.test"), ("sim.test", "other.example"), ("[::1]", "sim.test:8443"), ("10.0.0.9", "sim.test"), ("sim.test", "10.0.0.9")] {
        for scheme in ["https", "wss"] {
            for via_client in [false, true] {
                for peer in [Peer::RealTls, Peer::RealPlain] {
                    let mut c = base(scheme, host, CertKind::Good, peer);
                    c.via_client = via_client;
                    c.host_header = Some(hdr.to_string());
                    v.push(c);
                }
            }
        }
    }
    for scheme in SCHEMES {
        for host in HOSTS {
            for cert in [CertKind::Good, CertKind::Mismatch, CertKind::Untrusted, CertKind::Expired] {
                for peer in [Peer::RealTls, Peer::RealPlain, Peer::RawClose, Peer::RawPlaintext] {
                    for via_client in [false, true] {
                        if via_client && scheme == "foo" {
                            continue;
                        }
                        let mut c = base(scheme, host, cert, peer.clone());
                        c.via_client = via_client;
                        v.push(c);
                    }
                }
            }
        }
    }
    // the genuine server flight truncated at 40 offsets, closing or stalling
    for k in 0..40 {
        for stall in [false, true] {
            for host in ["sim.test", "127.0.0.1", "[::1]"] {
                v.push(base("https", host, CertKind::Good, Peer::RawTruncated { at: k * 64, stall }));
            }
        }
    }
    // pool history: an idle clear-text connection to the same host and port exists
    for scheme in ["https", "wss", "Wss"] {
        for host in ["sim.test", "127.0.0.1", "[::1]", "other.example"] {
            for port in [443u16, 8443, 80] {
                for cert in [CertKind::Good, CertKind::Untrusted] {
                    let mut c = base(scheme, host, cert, Peer::RealTls);
                    c.port = Some(port);
                    c.via_client = true;
                    c.prior_plain = true;
                    v.push(c);
                }
            }
        }
    }
    // ALPN combinations against the real server
    for (c_h2, s_h2) in [(true, true), (true, false), (false, true)] {
        for via_client in [false, true] {
            let mut c = base("https", "sim.test", CertKind::Good, Peer::RealTls);
            c.client_alpn_h2 = c_h2;
            c.server_alpn_h2 = s_h2;
            c.via_client = via_client;
            v.push(c);
        }
    }
    v
}
