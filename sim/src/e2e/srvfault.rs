//! Engine B, mode `srvfault` (C09): per-connection faults at every stage, interleaved with
//! well-behaved clients, against a real hyperdriver server over (a) the simulated network and
//! (b) hyperdriver's own duplex transport, with and without TLS. The serving future must stay
//! pending and well-behaved clients must be served.

use std::collections::BTreeMap;
use std::sync::Arc;
use std::time::Duration;

use parking_lot::Mutex;
use serde::{Deserialize, Serialize};
use serde_json::json;
use tokio::io::{AsyncRead, AsyncReadExt, AsyncWrite, AsyncWriteExt};

use super::infra::*;
use crate::framework::{Outcome, Scenario, ScenarioInfo, Tier, Violation};
use crate::rng::{Digest, Rng};
use crate::{simrt, tlsfix};

#[derive(Clone, Copy, Debug, Serialize, Deserialize, PartialEq, Eq)]
pub enum NetKind {
    Sim,
    Duplex,
}

#[derive(Clone, Debug, Serialize, Deserialize, PartialEq)]
pub enum Fault {
    /// duplex only: the connect future is dropped after the request was queued, before accept
    ConnectCancelled,
    /// connect, then close without sending anything
    ConnectThenClose,
    /// bytes that are no HTTP at all, then close
    Garbage,
    /// a valid request head truncated after `at` bytes, then close
    TruncatedHead { at: usize },
    /// a complete head announcing `declared` body bytes, `sent` of them, then close
    TruncatedBody { declared: usize, sent: usize },
    /// a valid request; the client reads `read` bytes of a long response and disappears
    ResetMidResponse { read: usize },
    /// TLS acceptor only: bytes that are no ClientHello
    TlsGarbage,
    /// TLS acceptor only: a genuine ClientHello truncated after `at` bytes, then close
    TlsTruncated { at: usize },
    /// TLS acceptor only: part of a ClientHello, then silence with the connection held open
    TlsStall { at: usize },
    /// the request handler returns an error
    HandlerError,
    /// plaintext HTTP sent to a TLS acceptor
    PlainToTls,
    /// duplex only: one client asks for an unusual stream buffer size (the size is the
    /// client's to choose), sends a request through it and leaves
    OddBuffer { size: usize },
}

#[derive(Clone, Debug, Serialize, Deserialize)]
pub enum Event {
    Fault(Fault),
    /// a well-behaved client with this request id
    Good(u32),
}

#[derive(Clone, Debug, Serialize, Deserialize)]
pub struct SrvFaultCase {
    pub seed: u64,
    pub net: NetKind,
    pub tls: bool,
    pub proto: ServerProto,
    /// (start in virtual ms, event)
    pub events: Vec<(u64, Event)>,
    /// TLS servers only: built with Server::with_tls_connection_info() (the make-service is
    /// wrapped in the layer that passes the handshake's outcome on to the requests)
    #[serde(default)]
    pub tls_info: bool,
}

pub struct SrvFaultSim;

fn fault_name(f: &Fault) -> &'static str {
    match f {
        Fault::ConnectCancelled => "connect_cancelled",
        Fault::ConnectThenClose => "connect_then_close",
        Fault::Garbage => "garbage_bytes",
        Fault::TruncatedHead { .. } => "truncated_head",
        Fault::TruncatedBody { .. } => "truncated_body",
        Fault::ResetMidResponse { .. } => "reset_mid_response",
        Fault::TlsGarbage => "tls_garbage",
        Fault::TlsTruncated { .. } => "tls_truncated",
        Fault::TlsStall { .. } => "tls_stall",
        Fault::HandlerError => "handler_error",
        Fault::PlainToTls => "plaintext_to_tls",
        Fault::OddBuffer { .. } => "odd_duplex_buffer",
    }
}

trait Io: AsyncRead + AsyncWrite + Unpin + Send {}
impl<T: AsyncRead + AsyncWrite + Unpin + Send> Io for T {}

#[derive(Clone)]
enum Connector {
    Sim(Network),
    Duplex(hyperdriver::stream::duplex::DuplexClient),
}

impl Connector {
    async fn connect(&self) -> std::io::Result<Box<dyn Io>> {
        match self {
            Connector::Sim(net) => Ok(Box::new(net.raw_connect("http://srv.test", None)?)),
            Connector::Duplex(c) => Ok(Box::new(c.connect(8192).await?)),
        }
    }
}

pub fn request_bytes(id: u32, body_len: usize, declared: usize) -> Vec<u8> {
    let mut v = format!(
        "POST /r/{}/f HTTP/1.1\r\nhost: srv.test\r\nx-req-id: {}\r\nx-body-len: {}\r\ncontent-length: {}\r\nconnection: close\r\n\r\n",
        id, id, declared, declared
    )
    .into_bytes();
    v.extend(req_body(id, body_len));
    v
}

/// Check a raw HTTP/1.1 response produced by `handle` for request `id`.
pub fn check_response(raw: &[u8], id: u32, resp_len: usize) -> Result<(), String> {
    let pos = raw.windows(4).position(|w| w == b"\r\n\r\n").ok_or_else(|| format!("no complete response head in {} bytes", raw.len()))?;
    let head = String::from_utf8_lossy(&raw[..pos]).to_string();
    let body = &raw[pos + 4..];
    let status_line = head.lines().next().unwrap_or("");
    if !status_line.contains(&status_for(id).to_string()) {
        return Err(format!("status line {:?}, expected {}", status_line, status_for(id)));
    }
    if !head.to_ascii_lowercase().contains(&format!("x-req-id: {}", id)) {
        return Err(format!("response does not carry x-req-id {}", id));
    }
    if body != resp_body(id, resp_len).as_slice() {
        return Err(format!("body of {} bytes differs from the {} bytes the handler sent", body.len(), resp_len));
    }
    Ok(())
}

async fn good_client(conn: Connector, tls: bool, id: u32, resp_len: usize) -> Result<(), String> {
    // (a connect that is never answered - an accept loop that lost its wake-up - must not hang the run)
    let io = match tokio::time::timeout(Duration::from_secs(30), conn.connect()).await {
        Ok(r) => r.map_err(|e| format!("connect: {}", e.kind()))?,
        Err(_) => return Err("connect: not accepted within 30 s of virtual time".into()),
    };
    let exchange = async {
        let mut io: Box<dyn Io> = if tls {
            let c = tokio_rustls::TlsConnector::from(tlsfix::client_config(&[]));
            let name = rustls::pki_types::ServerName::try_from("sim.test").unwrap();
            Box::new(c.connect(name, io).await.map_err(|e| format!("tls: {}", e))?)
        } else {
            io
        };
        io.write_all(&request_bytes(id, 40, 40)).await.map_err(|e| format!("write: {}", e.kind()))?;
        io.flush().await.map_err(|e| format!("flush: {}", e.kind()))?;
        let mut buf = Vec::new();
        // a TLS peer may end without close_notify after `connection: close`; the bytes count
        let r = io.read_to_end(&mut buf).await;
        if let Err(e) = r {
            if buf.is_empty() {
                return Err(format!("read: {}", e.kind()));
            }
        }
        check_response(&buf, id, resp_len)
    };
    match tokio::time::timeout(Duration::from_secs(30), exchange).await {
        Ok(r) => r,
        Err(_) => Err("no complete response within 30 s of virtual time".into()),
    }
}

/// A ClientHello as produced by rustls for our client configuration.
fn client_hello_bytes() -> Vec<u8> {
    let cfg = tlsfix::client_config(&[]);
    let name = rustls::pki_types::ServerName::try_from("sim.test").unwrap();
    let mut conn = rustls::ClientConnection::new(cfg, name).expect("client conn");
    let mut out = Vec::new();
    while conn.wants_write() {
        conn.write_tls(&mut out).expect("write_tls");
    }
    out
}

async fn run_fault(conn: Connector, tls: bool, f: Fault) {
    let _ = tokio::time::timeout(Duration::from_secs(60), async move {
        match f {
            Fault::ConnectCancelled => {
                if let Connector::Duplex(c) = &conn {
                    let fut = c.connect(1024);
                    tokio::pin!(fut);
                    // poll once: the request is queued for the acceptor; then abandon it
                    let _ = futures_util::poll!(fut.as_mut());
                }
            }
            Fault::ConnectThenClose => {
                let _ = conn.connect().await;
            }
            Fault::OddBuffer { size } => {
                if let Connector::Duplex(c) = &conn {
                    if let Ok(mut io) = c.connect(size).await {
                        let _ = tokio::time::timeout(Duration::from_millis(50), async {
                            let _ = io.write_all(&request_bytes(900, 0, 0)).await;
                            let _ = io.flush().await;
                            let mut b = [0u8; 64];
                            let _ = io.read(&mut b).await;
                        })
                        .await;
                    }
                }
            }
            Fault::Garbage | Fault::TlsGarbage => {
                if let Ok(mut io) = conn.connect().await {
                    let _ = io.write_all(b"\x00\xff\x13\x37 this is not a protocol\r\n\r\n\x16\x03").await;
                    let _ = io.flush().await;
                    let mut b = [0u8; 64];
                    let _ = tokio::time::timeout(Duration::from_millis(50), io.read(&mut b)).await;
                }
            }
            Fault::PlainToTls => {
                if let Ok(mut io) = conn.connect().await {
                    let _ = io.write_all(&request_bytes(900, 0, 0)).await;
                    let mut b = [0u8; 64];
                    let _ = tokio::time::timeout(Duration::from_millis(50), io.read(&mut b)).await;
                }
            }
            Fault::TlsTruncated { at } | Fault::TlsStall { at } => {
                if let Ok(mut io) = conn.connect().await {
                    let hello = client_hello_bytes();
                    let n = at.min(hello.len());
                    let _ = io.write_all(&hello[..n]).await;
                    let _ = io.flush().await;
                    if matches!(f, Fault::TlsStall { .. }) {
                        // hold the connection open, silently, for a long time
                        tokio::time::sleep(Duration::from_secs(50)).await;
                    }
                }
            }
            Fault::TruncatedHead { .. } | Fault::TruncatedBody { .. } | Fault::ResetMidResponse { .. } | Fault::HandlerError => {
                let Ok(io) = conn.connect().await else { return };
                let mut io: Box<dyn Io> = if tls {
                    let c = tokio_rustls::TlsConnector::from(tlsfix::client_config(&[]));
                    let name = rustls::pki_types::ServerName::try_from("sim.test").unwrap();
                    match c.connect(name, io).await {
                        Ok(s) => Box::new(s),
                        Err(_) => return,
                    }
                } else {
                    io
                };
                match f {
                    Fault::TruncatedHead { at } => {
                        let b = request_bytes(901, 0, 0);
                        let head_len = b.len();
                        let _ = io.write_all(&b[..at.min(head_len - 1)]).await;
                        let _ = io.flush().await;
                    }
                    Fault::TruncatedBody { declared, sent } => {
                        let b = request_bytes(902, sent.min(declared), declared);
                        let _ = io.write_all(&b).await;
                        let _ = io.flush().await;
                    }
                    Fault::ResetMidResponse { read } => {
                        let _ = io.write_all(&request_bytes(903, 0, 0)).await;
                        let _ = io.flush().await;
                        let mut got = 0usize;
                        let mut b = [0u8; 256];
                        while got < read {
                            match io.read(&mut b).await {
                                Ok(0) | Err(_) => break,
                                Ok(n) => got += n,
                            }
                        }
                    }
                    Fault::HandlerError => {
                        let _ = io.write_all(&request_bytes(904, 0, 0)).await;
                        let _ = io.flush().await;
                        let mut b = Vec::new();
                        let _ = io.read_to_end(&mut b).await;
                    }
                    _ => {}
                }
                // dropping `io` here closes the connection
            }
        }
    })
    .await;
}

const ODD_BUFFERS: [usize; 6] = [1, 7, 63, 65, 4097, 1 << 40];

fn draw_fault(r: &mut Rng, net: NetKind, tls: bool) -> Fault {
    loop {
        let f = match r.below(12) {
            0 => Fault::ConnectCancelled,
            1 => Fault::ConnectThenClose,
            2 => Fault::Garbage,
            3 => Fault::TruncatedHead { at: r.range(0, 110) as usize },
            4 => Fault::TruncatedBody { declared: *r.pick(&[10usize, 100, 5000]), sent: *r.pick(&[0usize, 1, 9, 50]) },
            5 => Fault::ResetMidResponse { read: *r.pick(&[0usize, 1, 100, 3000]) },
            6 => Fault::TlsGarbage,
            7 => Fault::TlsTruncated { at: r.range(0, 260) as usize },
            8 => Fault::TlsStall { at: r.range(0, 260) as usize },
            9 => Fault::HandlerError,
            10 => Fault::OddBuffer { size: *r.pick(&ODD_BUFFERS) },
            _ => Fault::PlainToTls,
        };
        let ok = match f {
            Fault::ConnectCancelled | Fault::OddBuffer { .. } => net == NetKind::Duplex,
            Fault::TlsGarbage | Fault::TlsTruncated { .. } | Fault::TlsStall { .. } | Fault::PlainToTls => tls,
            _ => true,
        };
        if ok {
            return f;
        }
    }
}

fn enumerated() -> Vec<SrvFaultCase> {
    // every fault kind x stage, each followed (and accompanied) by a well-behaved client
    let mut v = vec![];
    for net in [NetKind::Sim, NetKind::Duplex] {
        for tls in [false, true] {
            let mut faults = vec![Fault::ConnectThenClose, Fault::Garbage, Fault::HandlerError];
            if net == NetKind::Duplex {
                faults.push(Fault::ConnectCancelled);
                for size in ODD_BUFFERS {
                    faults.push(Fault::OddBuffer { size });
                }
            }
            for at in [0usize, 1, 4, 17, 40, 80, 200] {
                faults.push(Fault::TruncatedHead { at });
            }
            for (declared, sent) in [(10usize, 0usize), (10, 9), (5000, 50)] {
                faults.push(Fault::TruncatedBody { declared, sent });
            }
            for read in [0usize, 1, 100, 3000] {
                faults.push(Fault::ResetMidResponse { read });
            }
            if tls {
                faults.push(Fault::TlsGarbage);
                faults.push(Fault::PlainToTls);
                for at in [0usize, 1, 5, 6, 50, 150, 250] {
                    faults.push(Fault::TlsTruncated { at });
                    faults.push(Fault::TlsStall { at });
                }
            }
            for f in faults {
                for proto in [ServerProto::Auto, ServerProto::H1] {
                    for tls_info in [false, true] {
                        if tls_info && !tls {
                            continue;
                        }
                        v.push(SrvFaultCase {
                            seed: 7,
                            net,
                            tls,
                            proto,
                            events: vec![(0, Event::Good(1)), (1, Event::Fault(f.clone())), (1, Event::Good(2)), (5, Event::Good(3))],
                            tls_info,
                        });
                    }
                }
            }
        }
    }
    v
}

impl Scenario for SrvFaultSim {
    type Case = SrvFaultCase;

    fn engine(&self) -> &'static str {
        "srvfault"
    }

    fn info(&self) -> ScenarioInfo {
        ScenarioInfo {
            rule: "a real hyperdriver Server (auto / http1; Acceptor with and without TLS) over (a) the simulated network and (b) hyperdriver's own duplex transport (Acceptor::from(DuplexIncoming), whose acknowledge path is part of the property); enumerated: every fault kind x stage (connect cancelled before accept, connect-then-close, garbage, head truncated at 7 offsets, body truncated, client gone mid-response at 4 offsets, handler error, TLS garbage, plaintext to TLS, ClientHello truncated / stalled at 7 offsets) x network x TLS x protocol, each accompanied and followed by well-behaved clients; random: sequences of up to 6 faults interleaved with up to 5 well-behaved clients at drawn virtual instants. Oracle: the serving future is still pending at the end, every well-behaved client (including a final probe) gets its complete correct response within 30 s of virtual time. Non-trivial: a fault and a well-behaved client overlapped or the fault preceded a client; distinct = (network, tls, protocol, ordered fault kinds).".into(),
            real: vec![
                "Server / Serving::poll_once accept loop, ConnectionDriver, Acceptor (+with_tls), TlsAcceptor, server TlsStream (lazy handshake), auto::Builder, http1 protocol",
                "stream::duplex::{DuplexClient, DuplexIncoming, DuplexConnectionRequest::ack}, AcceptorCore (duplex arm), Braid (duplex arm)",
                "hyper http1 server, rustls / tokio-rustls",
            ],
            stub: vec!["faulty and well-behaved clients (harness, raw bytes / tokio-rustls)", "network for variant (a) (SimNet)", "TCP and Unix listeners (kernel sockets: not run)"],
            assumptions: vec!["handler panics are out of scope (the property lists handler errors)", "the listener itself is never lost in these runs, no make-service failure is injected: the serving future has no legitimate reason to end"],
        }
    }

    fn num_cases(&self, tier: Tier) -> (u64, u64) {
        (enumerated().len() as u64, if tier == Tier::Quick { 3000 } else { 300_000 })
    }

    fn case(&self, index: u64, seed: u64, _tier: Tier) -> SrvFaultCase {
        let e = enumerated();
        if (index as usize) < e.len() {
            return e[index as usize].clone();
        }
        let mut r = Rng::keyed(seed, "srvfault");
        let net = *r.pick(&[NetKind::Sim, NetKind::Duplex]);
        let tls = r.bool();
        let proto = *r.pick(&[ServerProto::Auto, ServerProto::H1]);
        let nf = r.range(1, 6);
        let ng = r.range(1, 5) as u32;
        let mut events = vec![];
        for _ in 0..nf {
            events.push((r.below(40), Event::Fault(draw_fault(&mut r, net, tls))));
        }
        for id in 1..=ng {
            events.push((r.below(60), Event::Good(id)));
        }
        events.sort_by_key(|e| e.0);
        let tls_info = tls && r.bool();
        SrvFaultCase { seed, net, tls, proto, events, tls_info }
    }

    fn execute(&self, case: &SrvFaultCase) -> Outcome {
        simrt::install_panic_hook();
        let _ = simrt::take_panics();
        let mut out = Outcome::default();
        let rt = simrt::runtime();
        let local = tokio::task::LocalSet::new();
        let result = std::panic::catch_unwind(std::panic::AssertUnwindSafe(|| {
            local.block_on(&rt, async {
                crate::net::reset_ops();
                let pump = tokio::task::spawn_local(crate::net::time_pump());
                let _g = super::AbortOnDrop(pump);
                let net = Network::new(case.seed, NetPlan::plain());
                let log = Arc::new(Mutex::new(HandlerLog::default()));
                let mut plans = BTreeMap::new();
                for id in 1u32..=20 {
                    plans.insert(id, HandlerPlan { delay_ms: id as u64 % 3, resp_len: 500, resp_chunk: 100, resp_delay_ms: 0, fail: false, upgrade: false, redirect: None, resp_trailers: false });
                }
                plans.insert(903, HandlerPlan { delay_ms: 0, resp_len: 60000, resp_chunk: 1000, resp_delay_ms: 1, fail: false, upgrade: false, redirect: None, resp_trailers: false });
                plans.insert(904, HandlerPlan { delay_ms: 1, resp_len: 5, resp_chunk: 5, resp_delay_ms: 0, fail: true, upgrade: false, redirect: None, resp_trailers: false });
                let plans = Arc::new(plans);
                let ctx = HandlerCtx { net: net.clone(), log: log.clone(), plans: plans.clone(), origin: "http://srv.test".into() };
                let tls_cfg = if case.tls { Some(tlsfix::server_config(tlsfix::CertKind::Good, &[])) } else { None };
                let exec = SimExecutor::default();
                let (server, connector): (tokio::task::JoinHandle<Result<(), String>>, Connector) = match case.net {
                    NetKind::Sim => {
                        let acc = net.listen("http://srv.test");
                        let h = tokio::task::spawn_local({
                            let f = run_server_opts(acc, case.proto, tls_cfg, ctx, exec.clone(), None, false, case.tls_info);
                            async move { f.await.map_err(|e| e.to_string()) }
                        });
                        (h, Connector::Sim(net.clone()))
                    }
                    NetKind::Duplex => {
                        let (client, incoming) = hyperdriver::stream::duplex::pair();
                        let h = tokio::task::spawn_local({
                            let f = run_duplex_server(incoming, case.proto, tls_cfg, ctx, exec.clone(), case.tls_info);
                            async move { f.await.map_err(|e| e.to_string()) }
                        });
                        (h, Connector::Duplex(client))
                    }
                };
                let t0 = tokio::time::Instant::now();
                let good_results: Arc<Mutex<Vec<(u32, Result<(), String>)>>> = Arc::new(Mutex::new(vec![]));
                let mut tasks = vec![];
                for (t, ev) in case.events.iter().cloned() {
                    let connector = connector.clone();
                    let tls = case.tls;
                    let results = good_results.clone();
                    tasks.push(tokio::task::spawn_local(async move {
                        tokio::time::sleep_until(t0 + Duration::from_millis(t)).await;
                        match ev {
                            Event::Fault(f) => run_fault(connector, tls, f).await,
                            Event::Good(id) => {
                                let r = good_client(connector, tls, id, 500).await;
                                results.lock().push((id, r));
                            }
                        }
                    }));
                }
                for t in tasks {
                    let _ = t.await;
                }
                // final probe after every fault has played out
                let probe = good_client(connector.clone(), case.tls, 20, 500).await;
                let server_state = if server.is_finished() {
                    Some(server.await.map_err(|e| e.to_string()).and_then(|r| r))
                } else {
                    server.abort();
                    None
                };
                let end = t0.elapsed().as_millis() as u64;
                let good = good_results.lock().clone();
                (good, probe, server_state, end)
            })
        }));
        drop(local);
        drop(rt);
        if let Some(m) = crate::net::take_spin() {
            out.violations.push(Violation::new("C09", "spins_after_end_of_stream", json!({"net": format!("{:?}", case.net), "tls": case.tls}), format!("a reader in the library keeps reading a closed connection in a loop without yielding: {}", m)));
        }
        for p in simrt::take_panics() {
            if p.in_harness() {
                out.harness_error = Some(format!("harness panic {} at {}", p.message, p.location()));
            } else {
                out.violations.push(Violation::new("C09", "panic", json!({"location": p.location()}), format!("panic: {} at {}", p.message, p.location())));
            }
        }
        let Ok((good, probe, server_state, end)) = result else { return out };
        let faults: Vec<&Fault> = case.events.iter().filter_map(|(_, e)| if let Event::Fault(f) = e { Some(f) } else { None }).collect();
        let mut names: Vec<&'static str> = faults.iter().map(|f| fault_name(f)).collect();
        for n in &names {
            out.count(&format!("fault.{}", n));
        }
        let mut sig = Digest::default();
        sig.push(case.net as u64 * 8 + case.tls as u64 * 4 + case.proto as u64);
        for n in &names {
            sig.push_str(n);
        }
        out.abstract_sig = sig.0;
        let mut log = Digest::default();
        log.push(end);
        for (id, r) in &good {
            log.push(*id as u64 * 2 + r.is_ok() as u64);
        }
        log.push(probe.is_ok() as u64);
        log.push(server_state.is_some() as u64);
        out.log_digest = log.0;
        out.sim_ms = end;
        out.nontrivial = !faults.is_empty() && !good.is_empty();
        out.faulty = !faults.is_empty();
        names.sort();
        names.dedup();
        // the signature must survive minimisation (which removes faults), so it names the setup only
        let sigv = json!({"net": format!("{:?}", case.net), "tls": case.tls});
        if let Some(st) = &server_state {
            out.violations.push(Violation::new(
                "C09",
                "server_stopped",
                sigv.clone(),
                format!("the serving future ended ({:?}) although only per-connection faults {:?} were injected", st, names),
            ));
        }
        for (id, r) in good.iter().chain(std::iter::once(&(20u32, probe.clone()))) {
            if let Err(e) = r {
                out.violations.push(Violation::new(
                    "C09",
                    if *id == 20 { "probe_not_served" } else { "bystander_disturbed" },
                    sigv.clone(),
                    format!("well-behaved client {} on its own connection was not served correctly: {} (faults on other connections: {:?})", id, e, names),
                ));
            } else {
                out.count("probe.well_behaved_client_served");
            }
        }
        out
    }

    fn shrink(&self, case: &SrvFaultCase) -> Vec<SrvFaultCase> {
        let mut v = vec![];
        for i in 0..case.events.len() {
            let mut c = case.clone();
            c.events.remove(i);
            v.push(c);
        }
        if case.tls && !case.events.iter().any(|(_, e)| matches!(e, Event::Fault(Fault::TlsGarbage | Fault::TlsTruncated { .. } | Fault::TlsStall { .. } | Fault::PlainToTls))) {
            let mut c = case.clone();
            c.tls = false;
            v.push(c);
        }
        for i in 0..case.events.len() {
            if case.events[i].0 > 0 {
                let mut c = case.clone();
                c.events[i].0 = 0;
                v.push(c);
            }
        }
        if case.proto != ServerProto::H1 {
            let mut c = case.clone();
            c.proto = ServerProto::H1;
            v.push(c);
        }
        v
    }
}

/// The same server as `run_server`, but over hyperdriver's duplex transport and its stock acceptor.
async fn run_duplex_server(
    incoming: hyperdriver::stream::duplex::DuplexIncoming,
    proto: ServerProto,
    tls: Option<Arc<rustls::ServerConfig>>,
    ctx: HandlerCtx,
    exec: SimExecutor,
    tls_info: bool,
) -> Result<(), hyperdriver::server::ServerError> {
    run_acceptor_server(hyperdriver::server::conn::Acceptor::from(incoming), proto, tls, ctx, exec, tls_info).await
}

/// The same server as `run_server`, behind hyperdriver's stock `Acceptor` (duplex, TCP or Unix).
pub async fn run_acceptor_server(
    acc: hyperdriver::server::conn::Acceptor,
    proto: ServerProto,
    tls: Option<Arc<rustls::ServerConfig>>,
    ctx: HandlerCtx,
    exec: SimExecutor,
    tls_info: bool,
) -> Result<(), hyperdriver::server::ServerError> {
    use hyperdriver::bridge::rt::TokioExecutor;
    let acc = match tls {
        Some(cfg) => acc.with_tls(cfg),
        None => acc,
    };
    let counter = Arc::new(Mutex::new(1000u32));
    let make = hyperdriver::service::make_service_fn(move |_stream: &hyperdriver::server::conn::Stream| {
        let conn = {
            let mut c = counter.lock();
            *c += 1;
            *c
        };
        let ctx = ctx.clone();
        async move { Ok::<_, std::convert::Infallible>(tower::service_fn(move |req: http::Request<hyperdriver::Body>| handle(ctx.clone(), conn, req))) }
    });
    let make = LazyMake { inner: make, asked: false };
    macro_rules! serve {
        ($b:expr) => {{
            let b = $b;
            match proto {
                ServerProto::H1 => {
                    let mut p = hyperdriver::server::conn::http1::Builder::new();
                    p.auto_date_header(false);
                    b.with_protocol(p).with_executor(exec).await
                }
                _ => {
                    let mut p = hyperdriver::server::AutoBuilder::new(TokioExecutor::new());
                    p.http1().auto_date_header(false);
                    p.http2().auto_date_header(false);
                    b.with_protocol(p).with_executor(exec).await
                }
            }
        }};
    }
    let b = hyperdriver::Server::builder::<hyperdriver::Body>().with_acceptor(acc).with_make_service(make);
    if tls_info {
        serve!(b.with_tls_connection_info())
    } else {
        serve!(b)
    }
}
