//! Engine B, mode `wire` (C13): what the server sees for a request drawn from a grammar of URIs,
//! methods, versions and pre-set headers, crossed with the protocol of the connection the pool
//! history gives it (HTTP/1.1, HTTP/2 by request version, HTTP/2 by ALPN, reused connections).

use std::collections::BTreeMap;
use std::sync::Arc;
use std::time::Duration;

use http_body_util::BodyExt;
use parking_lot::Mutex;
use serde::{Deserialize, Serialize};
use serde_json::json;
use tower::ServiceExt;

use super::infra::*;
use super::{ClientCfg, Ver};
use crate::framework::{Outcome, Scenario, ScenarioInfo, Tier, Violation};
use crate::rng::{Digest, Rng};
use crate::{simrt, tlsfix};

#[derive(Clone, Debug, Serialize, Deserialize)]
pub struct WireReq {
    pub id: u32,
    pub scheme: String,
    pub authority: String,
    /// path as written by the caller ("" = no path at all)
    pub path: String,
    pub query: Option<String>,
    pub method: String,
    pub ver: Ver,
    pub headers: Vec<(String, String)>,
    pub start_ms: u64,
}

#[derive(Clone, Debug, Serialize, Deserialize)]
pub struct WireCase {
    pub seed: u64,
    pub client: ClientCfg,
    pub server_alpn_h2: bool,
    pub server_proto: ServerProto,
    pub reqs: Vec<WireReq>,
    pub io_faulty: bool,
}

pub struct WireSim;

// each list has the scheme's own default port, the *other* scheme's default port (which is not a
// default here and must appear in Host), a non-default port and no port
const AUTHS_HTTP: [&str; 10] = ["a.test", "a.test:80", "a.test:8080", "a.test:443", "10.0.0.7", "10.0.0.7:8080", "10.0.0.7:443", "[::1]", "[::1]:8080", "[::1]:443"];
const AUTHS_HTTPS: [&str; 9] = ["a.test", "a.test:443", "a.test:8443", "a.test:80", "127.0.0.1", "127.0.0.1:80", "[::1]", "[::1]:8443", "[::1]:80"];
const PATHS: [&str; 8] = ["", "/", "/a/b", "/a%20b", "//x", "/a/./b", "/~u/x.html", "/r"];
const QUERIES: [&str; 5] = ["", "q=1", "a=b&c=%2F", "x", "a=b?c"];
const METHODS: [&str; 6] = ["GET", "POST", "CONNECT", "OPTIONS", "PURGE", "DELETE"];

impl WireReq {
    fn uri(&self) -> String {
        // the id travels in the query-free tail of the path so that the path under test is untouched
        let mut s = format!("{}://{}{}", self.scheme, self.authority, self.path);
        if let Some(q) = &self.query {
            s.push('?');
            s.push_str(q);
        }
        s
    }
    fn origin(&self) -> String {
        format!("{}://{}", self.scheme, self.authority)
    }
}

fn secure_scheme(scheme: &str) -> bool {
    matches!(scheme.to_ascii_lowercase().as_str(), "https" | "wss")
}

fn default_port(scheme: &str) -> u16 {
    if secure_scheme(scheme) {
        443
    } else {
        80
    }
}

fn draw_req(r: &mut Rng, id: u32, client_tls: bool) -> WireReq {
    let https = client_tls && r.chance(1, 2);
    // schemes are case-insensitive; ws/wss share the defaults of http/https
    let scheme = if https {
        *r.weighted(&[(6, "https"), (2, "wss"), (1, "Wss"), (1, "HTTPS")])
    } else {
        *r.weighted(&[(6, "http"), (2, "ws"), (1, "WS"), (1, "Http")])
    }
    .to_string();
    let authority = if https { r.pick(&AUTHS_HTTPS).to_string() } else { r.pick(&AUTHS_HTTP).to_string() };
    let q = *r.pick(&QUERIES);
    let mut headers = vec![];
    if r.chance(1, 4) {
        headers.push(("host".to_string(), r.pick(&["caller.example", "caller.example:81"]).to_string()));
    }
    if r.chance(1, 4) {
        headers.push(("connection".to_string(), "keep-alive".to_string()));
    }
    if r.chance(1, 6) {
        headers.push(("proxy-connection".to_string(), "keep-alive".to_string()));
    }
    if r.chance(1, 6) {
        headers.push(("keep-alive".to_string(), "timeout=5".to_string()));
    }
    if r.chance(1, 8) {
        headers.push(("upgrade".to_string(), "foo".to_string()));
    }
    if r.chance(1, 6) {
        headers.push(("te".to_string(), "trailers".to_string()));
    }
    headers.push(("x-keep".to_string(), format!("v{}", id)));
    WireReq {
        id,
        scheme,
        authority,
        path: r.pick(&PATHS).to_string(),
        query: if q.is_empty() { None } else { Some(q.to_string()) },
        method: r.weighted(&[(5, "GET"), (3, "POST"), (2, "CONNECT"), (1, "OPTIONS"), (1, "PURGE"), (1, "DELETE")]).to_string(),
        ver: *r.pick(&[Ver::H11, Ver::H2, Ver::H11, Ver::H10]),
        headers,
        start_ms: *r.pick(&[0u64, 0, 1, 10, 50]),
    }
}

#[derive(Clone, Debug)]
struct Res {
    ok: bool,
    err: Option<String>,
    invalid_method: bool,
}

impl Scenario for WireSim {
    type Case = WireCase;

    fn engine(&self) -> &'static str {
        "wire"
    }

    fn info(&self) -> ScenarioInfo {
        ScenarioInfo {
            rule: "2-6 requests per run from a grammar (scheme http/https, host name / IPv4 / bracketed IPv6, port absent / default / non-default, paths incl. empty, '/', percent-encoded and dotted ones, queries incl. one containing '?', methods incl. CONNECT and an extension method, versions 1.0 / 1.1 / 2, caller-supplied Host, Connection, Proxy-Connection, Keep-Alive, Upgrade, TE) through the whole client stack with a drawn pool configuration, so that the request x connection-protocol pairing (HTTP/1.1; HTTP/2 by request version; HTTP/2 by ALPN; an HTTP/1.1-versioned request on a pooled HTTP/2 connection) is produced by pool history; every distinct authority gets a real hyperdriver server. Oracle at the server: connection protocol = f(version of the dialing request, ALPN); HTTP/1: origin-form target with path and query byte-identical (authority-form for CONNECT), Host = URI host[:non-default port] unless supplied; HTTP/2: no Host and no connection-specific header, CONNECT fails with InvalidMethod before anything is sent. Non-trivial: a request carried on a connection whose protocol differs from its version, or pre-set headers present, or CONNECT; distinct = per-request (method class, version, header set, path/query class, connection protocol).".into(),
            real: vec![
                "service::{SetHostHeader, Http1ChecksService, Http2ChecksService}, HttpConnection::send_request, HttpConnectionBuilder::handshake (ALPN switch), ConnectionPoolService::connect_to",
                "the rest of the client stack and a real hyperdriver server per authority (as in e2esim)",
            ],
            stub: vec!["network (SimNet)", "handler recording what hyper's server parsed from the wire"],
            assumptions: vec!["hyper's server reports request target, version and headers as received", "the input-only part of this property is exactly as strong as the grammar sweep"],
        }
    }

    fn num_cases(&self, tier: Tier) -> (u64, u64) {
        (0, if tier == Tier::Quick { 4000 } else { 400_000 })
    }

    fn case(&self, _index: u64, seed: u64, _tier: Tier) -> WireCase {
        let mut r = Rng::keyed(seed, "wire");
        let tls = r.chance(2, 3);
        let client = ClientCfg {
            pool: r.chance(5, 6),
            idle_timeout_ms: None,
            max_idle: 32,
            continue_after_preemption: r.bool(),
            alpn_h2: r.bool(),
            timeout_ms: Some(30_000),
            order: r.below(24) as u8,
            busy: *Rng::keyed(seed, "wire/busy").weighted(&[(3, 0u8), (1, 1), (1, 3)]),
        };
        let n = r.range(2, 6) as u32;
        let mut reqs: Vec<WireReq> = (0..n).map(|i| draw_req(&mut r, i, tls)).collect();
        // make reuse likely: several requests share an authority
        if r.chance(2, 3) {
            let (s, a) = (reqs[0].scheme.clone(), reqs[0].authority.clone());
            for q in reqs.iter_mut().skip(1) {
                if r.chance(2, 3) {
                    q.scheme = s.clone();
                    q.authority = a.clone();
                }
            }
        }
        WireCase { seed, client, server_alpn_h2: r.bool(), server_proto: ServerProto::Auto, reqs, io_faulty: r.chance(1, 3) }
    }

    fn execute(&self, case: &WireCase) -> Outcome {
        simrt::install_panic_hook();
        let _ = simrt::take_panics();
        let mut out = Outcome::default();
        let rt = simrt::runtime();
        let local = tokio::task::LocalSet::new();
        let result = std::panic::catch_unwind(std::panic::AssertUnwindSafe(|| {
            local.block_on(&rt, async {
                crate::net::reset_ops();
                let pump = tokio::task::spawn_local(crate::net::time_pump());
                let _g = super::AbortOnDrop(pump);
                let mut plan = NetPlan::plain();
                plan.io_faulty = case.io_faulty;
                let net = Network::new(case.seed, plan);
                let log = Arc::new(Mutex::new(HandlerLog::default()));
                let mut plans = BTreeMap::new();
                for q in &case.reqs {
                    plans.insert(q.id, HandlerPlan { resp_len: 20, ..HandlerPlan::default() });
                }
                let plans = Arc::new(plans);
                let mut origins: Vec<String> = case.reqs.iter().map(|q| q.origin().parse::<http::Uri>().map(|u| origin_key(&u)).unwrap_or_else(|_| q.origin())).collect();
                origins.sort();
                origins.dedup();
                let mut servers = vec![];
                for o in &origins {
                    let acc = net.listen(o);
                    let tls = if o.starts_with("https") || o.starts_with("wss") {
                        let alpn: &[&str] = if case.server_alpn_h2 { &["h2", "http/1.1"] } else { &["http/1.1"] };
                        Some(tlsfix::server_config(tlsfix::CertKind::Good, alpn))
                    } else {
                        None
                    };
                    let ctx = HandlerCtx { net: net.clone(), log: log.clone(), plans: plans.clone(), origin: o.clone() };
                    servers.push(tokio::task::spawn_local(run_server(acc, case.server_proto, tls, ctx, SimExecutor::default(), None)));
                }
                let any_tls = origins.iter().any(|o| o.starts_with("https") || o.starts_with("wss"));
                let svc = super::build_client(&net, &case.client, any_tls);
                let results: Arc<Mutex<BTreeMap<u32, Res>>> = Arc::new(Mutex::new(BTreeMap::new()));
                let mut tasks = vec![];
                for q in case.reqs.clone() {
                    let svc = svc.clone();
                    let results = results.clone();
                    tasks.push(tokio::task::spawn_local(async move {
                        if q.start_ms > 0 {
                            tokio::time::sleep(Duration::from_millis(q.start_ms)).await;
                        }
                        let mut b = http::Request::builder().method(q.method.as_str()).uri(q.uri()).version(q.ver.http());
                        // the id rides in a header only: path and query are under test
                        b = b.header("x-req-id", q.id.to_string()).header("x-body-len", "0").header("x-wire", "1");
                        for (k, v) in &q.headers {
                            b = b.header(k.as_str(), v.as_str());
                        }
                        let mut req = match b.body(ChunkBody::default()) {
                            Ok(r) => r,
                            Err(e) => {
                                results.lock().insert(q.id, Res { ok: false, err: Some(format!("request not constructible: {}", e)), invalid_method: false });
                                return;
                            }
                        };
                        req.extensions_mut().insert(ReqTag(q.id));
                        let r = svc.oneshot(req).await;
                        let res = match r {
                            Ok(resp) => {
                                let _ = resp.into_body().collect().await;
                                Res { ok: true, err: None, invalid_method: false }
                            }
                            Err(e) => Res { ok: false, invalid_method: matches!(e, hyperdriver::client::Error::InvalidMethod(_)), err: Some(format!("{}", e)) },
                        };
                        results.lock().insert(q.id, res);
                    }));
                }
                let all = async {
                    for t in tasks {
                        let _ = t.await;
                    }
                };
                let _ = tokio::time::timeout(Duration::from_secs(600), all).await;
                drop(svc);
                for s in servers {
                    s.abort();
                }
                let seen = log.lock().seen.clone();
                let results = results.lock().clone();
                let conns: Vec<(u32, String, http::Version)> = net.inner.lock().conns.iter().map(|c| (c.id, c.origin.clone(), c.version_requested)).collect();
                (seen, results, conns, net.now_ms())
            })
        }));
        drop(local);
        drop(rt);
        super::panic_violations(&simrt::take_panics(), &mut out);
        let Ok((seen, results, conns, end)) = result else { return out };
        let viols: std::cell::RefCell<Vec<Violation>> = std::cell::RefCell::new(vec![]);
        let viol = |rule: &str, kind: &str, detail: String| {
            viols.borrow_mut().push(Violation::new("C13", rule, json!({"kind": kind}), detail));
        };
        let mut sig = Digest::default();
        let mut log = Digest::default();
        let mut nontrivial = false;
        for s in &seen {
            let Some(q) = case.reqs.iter().find(|q| Some(q.id) == s_id(s)) else { continue };
            let u: http::Uri = match q.uri().parse() {
                Ok(u) => u,
                Err(_) => continue,
            };
            let https = secure_scheme(&q.scheme);
            // ---- protocol of the connection this request arrived on
            let conn = conns.iter().find(|c| c.0 == s.conn);
            let alpn_h2 = https && case.client.alpn_h2 && case.server_alpn_h2;
            let h2_expected = conn.map(|c| c.2 == http::Version::HTTP_2).unwrap_or(false) || alpn_h2;
            let is_h2 = s.version == http::Version::HTTP_2;
            if is_h2 != h2_expected {
                viol(
                    "wrong_connection_protocol",
                    "protocol",
                    format!(
                        "request {} ({:?}) arrived as {:?} on connection {} dialed for a {:?} request; ALPN h2 negotiated: {}",
                        q.id, q.ver, s.version, s.conn, conn.map(|c| c.2), alpn_h2
                    ),
                );
            }
            if !is_h2 && s.version != http::Version::HTTP_11 {
                // "... and HTTP/1.1 otherwise": whatever version the caller's request was labelled with
                viol("wrong_connection_protocol", "http1_version", format!("request {} ({:?}) was written as {:?} on an HTTP/1 connection; the connection speaks HTTP/1.1", q.id, q.ver, s.version));
            }
            if is_h2 != (q.ver == Ver::H2) {
                nontrivial = true;
                out.count(if is_h2 { "probe.http1_request_on_h2_connection" } else { "probe.h2_request_on_http1_connection" });
            }
            let supplied_host = q.headers.iter().find(|(k, _)| k == "host").map(|(_, v)| v.clone());
            if !is_h2 {
                // ---- HTTP/1: request target
                let expect_target = if q.method == "CONNECT" {
                    q.authority.clone()
                } else {
                    let p = if q.path.is_empty() { "/" } else { q.path.as_str() };
                    match &q.query {
                        Some(qs) => format!("{}?{}", p, qs),
                        None => p.to_string(),
                    }
                };
                if s.target != expect_target {
                    viol(
                        "wrong_request_target",
                        if q.method == "CONNECT" { "connect" } else { "origin_form" },
                        format!("request {} {} {} was sent with target {:?}, expected {:?}", q.id, q.method, q.uri(), s.target, expect_target),
                    );
                }
                // ---- Host
                let expect_host = supplied_host.clone().unwrap_or_else(|| {
                    let host = u.host().unwrap_or("").to_string();
                    match u.port_u16() {
                        Some(p) if p != default_port(&q.scheme) => format!("{}:{}", host, p),
                        _ => host,
                    }
                });
                if s.host.as_deref() != Some(expect_host.as_str()) {
                    viol(
                        "wrong_host_header",
                        if supplied_host.is_some() { "supplied" } else { "derived" },
                        format!("request {} to {} carried Host {:?}, expected {:?}", q.id, q.uri(), s.host, expect_host),
                    );
                }
                if !s.header_names.iter().any(|h| h == "x-keep") {
                    viol("header_lost", "x-keep", format!("request {} lost the caller's x-keep header", q.id));
                }
            } else {
                if s.host.is_some() {
                    viol("host_on_http2", "host", format!("request {} on an HTTP/2 connection still carries Host {:?}", q.id, s.host));
                }
                for h in ["connection", "proxy-connection", "keep-alive", "transfer-encoding", "upgrade"] {
                    if s.header_names.iter().any(|x| x == h) {
                        viol("connection_header_on_http2", h, format!("request {} on an HTTP/2 connection still carries the {} header", q.id, h));
                    }
                }
                if q.method == "CONNECT" {
                    viol("connect_on_http2", "connect", format!("CONNECT request {} was put on an HTTP/2 connection instead of being rejected", q.id));
                }
                // path and query survive
                let p = if q.path.is_empty() { "/" } else { q.path.as_str() };
                let expect_pq = match &q.query {
                    Some(qs) => format!("{}?{}", p, qs),
                    None => p.to_string(),
                };
                let seen_pq = s.target.parse::<http::Uri>().ok().and_then(|x| x.path_and_query().map(|x| x.as_str().to_string())).unwrap_or_default();
                if seen_pq != expect_pq {
                    viol("wrong_request_target", "h2_path", format!("request {} to {} arrived with path {:?}, expected {:?}", q.id, q.uri(), seen_pq, expect_pq));
                }
            }
            if !q.headers.is_empty() || q.method == "CONNECT" {
                nontrivial = true;
            }
            sig.push_str(&q.method);
            sig.push(q.ver as u64 * 2 + is_h2 as u64);
            sig.push(q.headers.len() as u64);
            sig.push(q.path.len() as u64 * 8 + q.query.as_ref().map(|x| x.len() as u64).unwrap_or(0));
            log.push(q.id as u64);
            log.push(s.conn as u64);
            log.push(is_h2 as u64);
        }
        // CONNECT must fail with InvalidMethod exactly when its connection is HTTP/2
        for q in &case.reqs {
            let Some(r) = results.get(&q.id) else { continue };
            log.push(r.ok as u64);
            if r.invalid_method {
                out.count("probe.connect_rejected_on_h2");
                if q.method != "CONNECT" {
                    viol("invalid_method_for_non_connect", "connect", format!("request {} {} failed with InvalidMethod", q.id, q.method));
                }
                if seen.iter().any(|s| s_id(s) == Some(q.id)) {
                    viol("connect_on_http2", "connect", format!("CONNECT request {} failed with InvalidMethod but still reached the server", q.id));
                }
            }
            if !r.ok && !r.invalid_method && !case.io_faulty {
                // CONNECT to an ordinary server gets an ordinary response; other failures are C01's business
                out.count("probe.request_failed");
                let _ = &r.err;
            }
        }
        out.violations.extend(viols.into_inner());
        out.violations.dedup_by(|a, b| a.rule == b.rule && a.signature == b.signature);
        out.abstract_sig = sig.0;
        out.log_digest = log.0;
        out.sim_ms = end;
        out.nontrivial = nontrivial;
        out.faulty = case.io_faulty;
        out
    }

    fn shrink(&self, case: &WireCase) -> Vec<WireCase> {
        let mut v = vec![];
        for i in 0..case.reqs.len() {
            let mut c = case.clone();
            c.reqs.remove(i);
            v.push(c);
        }
        if case.io_faulty {
            let mut c = case.clone();
            c.io_faulty = false;
            v.push(c);
        }
        for i in 0..case.reqs.len() {
            let q = &case.reqs[i];
            for h in 0..q.headers.len() {
                let mut c = case.clone();
                c.reqs[i].headers.remove(h);
                v.push(c);
            }
            if q.start_ms > 0 {
                let mut c = case.clone();
                c.reqs[i].start_ms = 0;
                v.push(c);
            }
            if q.query.is_some() {
                let mut c = case.clone();
                c.reqs[i].query = None;
                v.push(c);
            }
            if q.path != "/" {
                let mut c = case.clone();
                c.reqs[i].path = "/".into();
                v.push(c);
            }
            if q.method != "GET" {
                let mut c = case.clone();
                c.reqs[i].method = "GET".into();
                v.push(c);
            }
        }
        v
    }
}

fn s_id(s: &Seen) -> Option<u32> {
    if s.id == u32::MAX {
        None
    } else {
        Some(s.id)
    }
}
