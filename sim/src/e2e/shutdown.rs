//! Engine B, mode `shutdown` (C07): the graceful-shutdown signal fired at a drawn virtual instant
//! while 0..k connections are in every stage (just accepted / sniffing, mid head, mid body, in the
//! handler, mid response, idle keep-alive), over HTTP/1.1, HTTP/2 and auto-detected connections.

use std::collections::BTreeMap;
use std::sync::Arc;
use std::time::Duration;

use http_body_util::BodyExt;
use parking_lot::Mutex;
use serde::{Deserialize, Serialize};
use serde_json::json;
use tokio::io::{AsyncReadExt, AsyncWriteExt};

use super::infra::*;
use crate::framework::{Outcome, Scenario, ScenarioInfo, Tier, Violation};
use crate::net::{IoMode, SimStream};
use crate::rng::{Digest, Rng};
use crate::simrt;

#[derive(Clone, Debug, Serialize, Deserialize)]
pub struct ReqSpec {
    pub id: u32,
    /// pause before this request (idle keep-alive time on HTTP/1)
    pub gap_ms: u64,
    /// send the head in two parts: (split offset, pause in ms)
    pub head_split: Option<(usize, u64)>,
    pub body_len: usize,
    pub body_chunk: usize,
    pub body_delay_ms: u64,
    pub handler: HandlerPlan,
    /// HTTP/1 pipelining: right behind this request the client already writes this many bytes
    /// of the next request on the connection (0 = it waits for the response first)
    #[serde(default)]
    pub pipeline_bytes: usize,
}

#[derive(Clone, Copy, Debug, Serialize, Deserialize, PartialEq, Eq)]
pub enum ConnKind {
    RawH1,
    H2,
    /// connects and sends nothing (the server is still waiting for the first byte)
    Silent,
    /// TLS servers only: sends half a ClientHello, then nothing
    TlsStall,
    /// TLS servers only: completes the TLS handshake, then sends nothing
    SilentAfterTls,
}

impl ConnKind {
    /// the client has sent no protocol byte at all (whatever happened below HTTP)
    fn silent(self) -> bool {
        matches!(self, ConnKind::Silent | ConnKind::TlsStall | ConnKind::SilentAfterTls)
    }
    /// name used in violation signatures: the three silent kinds are one class
    fn class(self) -> &'static str {
        match self {
            ConnKind::RawH1 => "RawH1",
            ConnKind::H2 => "H2",
            _ => "Silent",
        }
    }
}

#[derive(Clone, Debug, Serialize, Deserialize)]
pub struct ConnPlan {
    pub kind: ConnKind,
    pub start_ms: u64,
    pub reqs: Vec<ReqSpec>,
}

#[derive(Clone, Debug, Serialize, Deserialize)]
pub struct ShutdownCase {
    pub seed: u64,
    pub proto: ServerProto,
    pub conns: Vec<ConnPlan>,
    pub signal_at_ms: u64,
    pub io_faulty: bool,
    /// the acceptor wraps connections in TLS (lazy handshake inside the connection task)
    #[serde(default)]
    pub tls: bool,
    /// an http1-only server is built with Server::builder().with_http1() (hyperdriver's own
    /// protocol configuration) instead of an explicitly configured hyper builder
    #[serde(default)]
    pub native_builder: bool,
    /// one more plain HTTP/1 connection is opened at time 0 and stays silent; its whole request is
    /// put on the wire by the driver in the very step that fires the signal, before any server
    /// task runs again (the connection task finds the signal and the request together)
    /// 0 = no such connection; 1 = an ordinary request; 2 = a request short enough (23 bytes) to fit
    /// entirely into the protocol detector's buffer
    #[serde(default)]
    pub instant_request: u8,
    /// the caller keeps the serving future alive after it has completed (a pinned future in a
    /// `select!` loop, a struct field) instead of consuming it: shutting the connections down must
    /// not wait for the future to be dropped
    #[serde(default)]
    pub hold_server_future: bool,
    /// the executor is busy: every connection task is first polled this many ms after it was
    /// handed over (the signal can find a connection that was accepted but has never run)
    #[serde(default)]
    pub exec_delay_ms: u64,
}

#[derive(Clone, Default)]
struct ConnObs {
    connected_ms: Option<u64>,
    refused: bool,
    /// (request id, completion instant, error)
    results: Vec<(u32, u64, Option<String>)>,
    /// instant the client observed the server closing the connection
    closed_ms: Option<u64>,
    first_byte_ms: Option<u64>,
    /// how the client's connection future ended (diagnostics only)
    close_reason: Option<String>,
    /// plain raw HTTP/1 clients: the pipe towards the server (its `read` counter says how many of
    /// the client's bytes the server has taken off the connection)
    c2s: Option<crate::net::PipeRef>,
}

pub struct ShutdownSim;

/// A complete request of 23 bytes: it fits into the 24-byte buffer of the protocol detector.
const TINY_REQUEST: &[u8] = b"GET /r/800 HTTP/1.1\r\n\r\n";

fn head_bytes(r: &ReqSpec) -> Vec<u8> {
    format!(
        "POST /r/{}/s HTTP/1.1\r\nhost: srv.test\r\nx-req-id: {}\r\nx-body-len: {}\r\ncontent-length: {}\r\n\r\n",
        r.id, r.id, r.body_len, r.body_len
    )
    .into_bytes()
}

trait Io: tokio::io::AsyncRead + tokio::io::AsyncWrite + Unpin + Send {}
impl<T: tokio::io::AsyncRead + tokio::io::AsyncWrite + Unpin + Send> Io for T {}

/// Wrap a raw simulated stream in a TLS client session when the server under test speaks TLS.
async fn client_io(io: SimStream, tls: bool) -> Result<Box<dyn Io>, String> {
    if !tls {
        return Ok(Box::new(io));
    }
    let c = tokio_rustls::TlsConnector::from(crate::tlsfix::client_config(&[]));
    let name = rustls::pki_types::ServerName::try_from("sim.test").unwrap();
    match c.connect(name, io).await {
        Ok(s) => Ok(Box::new(s)),
        Err(e) => Err(format!("tls: {}", e)),
    }
}

/// `carry`: bytes already read from the connection that belong to the next response (pipelining).
async fn read_response(io: &mut Box<dyn Io>, id: u32, resp_len: usize, carry: &mut Vec<u8>) -> Result<(), String> {
    let mut buf: Vec<u8> = std::mem::take(carry);
    let mut tmp = [0u8; 4096];
    let head_end = loop {
        if let Some(p) = buf.windows(4).position(|w| w == b"\r\n\r\n") {
            break p + 4;
        }
        match io.read(&mut tmp).await {
            Ok(0) => return Err(format!("connection closed after {} bytes of the response head", buf.len())),
            Ok(n) => buf.extend_from_slice(&tmp[..n]),
            Err(e) => return Err(format!("read: {}", e.kind())),
        }
    };
    let head = String::from_utf8_lossy(&buf[..head_end]).to_ascii_lowercase();
    if !head.starts_with(&format!("http/1.1 {}", status_for(id))) {
        return Err(format!("unexpected status line: {:?}", head.lines().next()));
    }
    if !head.contains(&format!("x-req-id: {}", id)) {
        return Err("response belongs to another request".into());
    }
    let clen: usize = head
        .lines()
        .find_map(|l| l.strip_prefix("content-length: ").map(|v| v.trim().parse().unwrap_or(0)))
        .ok_or("no content-length")?;
    while buf.len() < head_end + clen {
        match io.read(&mut tmp).await {
            Ok(0) => return Err(format!("connection closed after {} of {} body bytes", buf.len() - head_end, clen)),
            Ok(n) => buf.extend_from_slice(&tmp[..n]),
            Err(e) => return Err(format!("read: {}", e.kind())),
        }
    }
    if buf[head_end..head_end + clen] != resp_body(id, resp_len)[..] {
        return Err("response body differs from what the handler sent".into());
    }
    *carry = buf[head_end + clen..].to_vec();
    Ok(())
}

async fn raw_h1_conn(net: Network, plan: ConnPlan, obs: Arc<Mutex<ConnObs>>, mode: Option<(IoMode, IoMode)>, tls: bool) {
    let io = net.raw_connect("http://srv.test", mode);
    raw_h1_conn_on(net, plan, obs, io, tls).await
}

/// The same client over a connect attempt that has already been made (synchronously, by the driver).
async fn raw_h1_conn_on(net: Network, plan: ConnPlan, obs: Arc<Mutex<ConnObs>>, io: std::io::Result<SimStream>, tls: bool) {
    let io = match io {
        Ok(io) => io,
        Err(_) => {
            obs.lock().refused = true;
            return;
        }
    };
    obs.lock().connected_ms = Some(net.now_ms());
    if !tls {
        obs.lock().c2s = Some(io.tx.clone());
    }
    let mut io = match client_io(io, tls).await {
        Ok(io) => io,
        Err(_) => {
            // the server went away during the TLS handshake
            obs.lock().closed_ms = Some(net.now_ms());
            return;
        }
    };
    // bytes of a request that were already written behind its predecessor (pipelining)
    let mut presend: usize = 0;
    let mut carry: Vec<u8> = vec![];
    for (ri, r) in plan.reqs.iter().enumerate() {
        let already = std::mem::take(&mut presend);
        if r.gap_ms > 0 && already == 0 {
            // idle keep-alive: the server may close the connection meanwhile
            let mut b = [0u8; 1];
            match tokio::time::timeout(Duration::from_millis(r.gap_ms), io.read(&mut b)).await {
                Ok(Ok(0)) | Ok(Err(_)) => {
                    obs.lock().closed_ms = Some(net.now_ms());
                    return;
                }
                _ => {}
            }
        }
        let full_head = head_bytes(r);
        let head = &full_head[already.min(full_head.len())..];
        let next_head = plan.reqs.get(ri + 1).map(head_bytes);
        let mut sent_of_next = 0usize;
        let send = async {
            match r.head_split.filter(|_| already == 0) {
                Some((at, pause)) => {
                    let at = at.min(head.len() - 1).max(1);
                    io.write_all(&head[..at]).await?;
                    io.flush().await?;
                    tokio::time::sleep(Duration::from_millis(pause)).await;
                    io.write_all(&head[at..]).await?;
                }
                None => io.write_all(head).await?,
            }
            let body = req_body(r.id, r.body_len);
            for c in body.chunks(r.body_chunk.max(1)) {
                if r.body_delay_ms > 0 {
                    tokio::time::sleep(Duration::from_millis(r.body_delay_ms)).await;
                }
                io.write_all(c).await?;
            }
            io.flush().await?;
            if let (Some(nh), true) = (&next_head, r.pipeline_bytes > 0) {
                // the beginning (or all) of the next request's head goes out before this response is
                // read. A server that is shutting down may have answered this request and closed
                // already: failing to write the *next* request says nothing about this one, whose
                // response is then still to be read.
                let n = r.pipeline_bytes.min(nh.len());
                if io.write_all(&nh[..n]).await.is_ok() && io.flush().await.is_ok() {
                    sent_of_next = n;
                }
            }
            Ok::<(), std::io::Error>(())
        };
        if obs.lock().first_byte_ms.is_none() {
            obs.lock().first_byte_ms = Some(net.now_ms());
        }
        let sent = send.await;
        presend = sent_of_next;
        if let Err(e) = sent {
            obs.lock().results.push((r.id, net.now_ms(), Some(format!("send: {}", e.kind()))));
            obs.lock().closed_ms = Some(net.now_ms());
            return;
        }
        let res = read_response(&mut io, r.id, r.handler.resp_len, &mut carry).await;
        let now = net.now_ms();
        let failed = res.is_err();
        obs.lock().results.push((r.id, now, res.err()));
        if failed {
            obs.lock().closed_ms = Some(now);
            return;
        }
    }
    // idle keep-alive: wait for the server to close the connection
    let mut b = [0u8; 16];
    loop {
        match io.read(&mut b).await {
            Ok(0) | Err(_) => break,
            Ok(_) => {}
        }
    }
    obs.lock().closed_ms = Some(net.now_ms());
}

async fn h2_conn(net: Network, plan: ConnPlan, obs: Arc<Mutex<ConnObs>>, mode: Option<(IoMode, IoMode)>, tls: bool) {
    let io = match net.raw_connect("http://srv.test", mode) {
        Ok(io) => io,
        Err(_) => {
            obs.lock().refused = true;
            return;
        }
    };
    obs.lock().connected_ms = Some(net.now_ms());
    let io = match client_io(io, tls).await {
        Ok(io) => io,
        Err(_) => {
            obs.lock().closed_ms = Some(net.now_ms());
            return;
        }
    };
    obs.lock().first_byte_ms = Some(net.now_ms());
    let hs = hyper::client::conn::http2::handshake::<_, _, ChunkBody>(hyperdriver::bridge::rt::TokioExecutor::new(), hyperdriver::bridge::io::TokioIo::new(io)).await;
    let (sender, conn) = match hs {
        Ok(x) => x,
        Err(_) => {
            obs.lock().closed_ms = Some(net.now_ms());
            return;
        }
    };
    let closed = Arc::new(tokio::sync::Notify::new());
    let closed2 = closed.clone();
    let obs2 = obs.clone();
    let net2 = net.clone();
    let driver = tokio::task::spawn_local(async move {
        let r = conn.await;
        obs2.lock().closed_ms = Some(net2.now_ms());
        obs2.lock().close_reason = Some(match r {
            Ok(()) => "ok".into(),
            Err(e) => format!("{:?}", e),
        });
        closed2.notify_one();
    });
    let mut tasks = vec![];
    for r in plan.reqs.clone() {
        let mut sender = sender.clone();
        let obs = obs.clone();
        let net = net.clone();
        tasks.push(tokio::task::spawn_local(async move {
            if r.gap_ms > 0 {
                tokio::time::sleep(Duration::from_millis(r.gap_ms)).await;
            }
            let req = http::Request::builder()
                .method("POST")
                .uri(format!("http://srv.test/r/{}/s", r.id))
                .version(http::Version::HTTP_2)
                .header("x-req-id", r.id.to_string())
                .header("x-body-len", r.body_len.to_string())
                .body(ChunkBody::new(req_body(r.id, r.body_len), r.body_chunk, r.body_delay_ms))
                .unwrap();
            let res: Result<(), String> = async {
                let resp = sender.send_request(req).await.map_err(|e| format!("request: {}", e))?;
                if resp.status().as_u16() != status_for(r.id) {
                    return Err(format!("status {}", resp.status()));
                }
                if resp.headers().get("x-req-id").and_then(|v| v.to_str().ok()) != Some(&r.id.to_string()) {
                    return Err("response belongs to another request".into());
                }
                let body = resp.into_body().collect().await.map_err(|e| format!("body: {}", e))?.to_bytes();
                if body[..] != resp_body(r.id, r.handler.resp_len)[..] {
                    return Err(format!("body of {} bytes differs from the {} bytes sent", body.len(), r.handler.resp_len));
                }
                Ok(())
            }
            .await;
            obs.lock().results.push((r.id, net.now_ms(), res.err()));
        }));
    }
    for t in tasks {
        let _ = t.await;
    }
    // keep the connection open (idle) until the server closes it
    closed.notified().await;
    drop(sender);
    let _ = driver.await;
}

async fn silent_conn(net: Network, obs: Arc<Mutex<ConnObs>>, kind: ConnKind) {
    let mut io = match net.raw_connect("http://srv.test", None) {
        Ok(io) => io,
        Err(_) => {
            obs.lock().refused = true;
            return;
        }
    };
    obs.lock().connected_ms = Some(net.now_ms());
    let mut io: Box<dyn Io> = match kind {
        ConnKind::TlsStall => {
            let cfg = crate::tlsfix::client_config(&[]);
            let name = rustls::pki_types::ServerName::try_from("sim.test").unwrap();
            let mut conn = rustls::ClientConnection::new(cfg, name).expect("client conn");
            let mut hello = Vec::new();
            while conn.wants_write() {
                conn.write_tls(&mut hello).expect("write_tls");
            }
            let _ = io.write_all(&hello[..hello.len() / 2]).await;
            let _ = io.flush().await;
            Box::new(io)
        }
        ConnKind::SilentAfterTls => match client_io(io, true).await {
            Ok(io) => io,
            Err(_) => {
                obs.lock().closed_ms = Some(net.now_ms());
                return;
            }
        },
        _ => Box::new(io),
    };
    let mut b = [0u8; 16];
    loop {
        match io.read(&mut b).await {
            Ok(0) | Err(_) => break,
            Ok(_) => {}
        }
    }
    obs.lock().closed_ms = Some(net.now_ms());
}

fn draw_req(r: &mut Rng, id: u32, first: bool) -> ReqSpec {
    let body_len = *r.pick(&[0usize, 10, 200, 3000]);
    ReqSpec {
        id,
        gap_ms: if first { 0 } else { *r.pick(&[0u64, 3, 15]) },
        head_split: if r.chance(1, 3) { Some((r.range(1, 60) as usize, *r.pick(&[1u64, 5, 12]))) } else { None },
        body_len,
        body_chunk: *r.pick(&[50usize, 500, 5000]),
        body_delay_ms: *r.pick(&[0u64, 1, 4]),
        pipeline_bytes: *r.weighted(&[(3, 0usize), (1, 8), (1, 400)]),
        handler: HandlerPlan {
            delay_ms: *r.pick(&[0u64, 2, 10, 25]),
            resp_len: *r.pick(&[0usize, 10, 500, 6000]),
            resp_chunk: *r.pick(&[100usize, 1000]),
            resp_delay_ms: *r.pick(&[0u64, 1, 3]),
            fail: false,
            upgrade: false,
            redirect: None,
            resp_trailers: false,
        },
    }
}

impl Scenario for ShutdownSim {
    type Case = ShutdownCase;

    fn engine(&self) -> &'static str {
        "shutdown"
    }

    fn info(&self) -> ScenarioInfo {
        ScenarioInfo {
            rule: "Server::with_graceful_shutdown over the simulated acceptor, protocols http1 / http2 / auto, plain or behind the TLS acceptor (a third of the runs; then also clients that stall half-way through the ClientHello or go silent after the TLS handshake), 0-4 connections (raw HTTP/1.1 keep-alive clients that send heads in two parts and bodies in delayed chunks, hyper HTTP/2 clients with 1-3 concurrent streams, silent connections), handler delays and delayed response chunks, the signal at a drawn virtual instant in 0..60 ms so that it lands in every stage; three more connects after the signal (one queued at the very instant of the signal, before the server task runs again). Oracle (history relative to the signal instant): serving future Ok(()) at the signal; nothing connected afterwards is served; every request whose handler had started gets its complete correct response; every connection is closed by the server and every connection task finishes within 1 s (5 s with I/O delays) of its last in-flight exchange; idle and still-sniffing connections are closed. Non-trivial: at least one connection open at the signal; distinct = (protocol, multiset of connection stages at the signal).".into(),
            real: vec![
                "Server::with_graceful_shutdown, GracefulShutdown::poll, Serving::poll_once, close()/CloseSender/CloseReciever",
                "GracefulConnectionDriver, Connection::graceful_shutdown for http1 / http2 / auto (UpgradableConnection, ReadVersion::cancel), Connecting",
                "hyper http1/http2 server connections, hyper http2 client",
            ],
            stub: vec!["network (SimNet)", "HTTP/1.1 clients (harness, raw bytes)", "executor wrapper counting connection tasks"],
            assumptions: vec!["a request whose head had not been completely received at the signal may be served or refused; it must never receive a wrong or truncated success"],
        }
    }

    fn num_cases(&self, tier: Tier) -> (u64, u64) {
        (0, if tier == Tier::Quick { 6000 } else { 500_000 })
    }

    fn case(&self, _index: u64, seed: u64, _tier: Tier) -> ShutdownCase {
        let mut r = Rng::keyed(seed, "shutdown");
        let proto = *r.pick(&[ServerProto::Auto, ServerProto::H1, ServerProto::H2, ServerProto::Auto]);
        let tls = r.chance(1, 3);
        let n = r.range(0, 4) as usize;
        let mut id = 1u32;
        let mut conns = vec![];
        for _ in 0..n {
            let kind = match proto {
                ServerProto::H1 => *r.weighted(&[(6, ConnKind::RawH1), (1, ConnKind::Silent)]),
                ServerProto::H2 => *r.weighted(&[(6, ConnKind::H2), (1, ConnKind::Silent)]),
                ServerProto::Auto => *r.weighted(&[(3, ConnKind::RawH1), (3, ConnKind::H2), (1, ConnKind::Silent)]),
            };
            let kind = if kind == ConnKind::Silent && tls { *r.pick(&[ConnKind::Silent, ConnKind::TlsStall, ConnKind::SilentAfterTls]) } else { kind };
            let nreq = if kind.silent() { 0 } else { r.range(1, 3) as usize };
            let mut reqs = vec![];
            for k in 0..nreq {
                reqs.push(draw_req(&mut r, id, k == 0));
                id += 1;
            }
            conns.push(ConnPlan { kind, start_ms: r.below(30), reqs });
        }
        let instant_request = if !tls && proto != ServerProto::H2 { *Rng::keyed(seed, "shutdown/instant").pick(&[0u8, 0, 1, 2]) } else { 0 };
        let hold_server_future = Rng::keyed(seed, "shutdown/hold").chance(1, 3);
        ShutdownCase { seed, proto, conns, signal_at_ms: r.below(60), io_faulty: r.chance(1, 3), tls, native_builder: r.bool(), instant_request, hold_server_future, exec_delay_ms: *Rng::keyed(seed, "shutdown/exec-delay").weighted(&[(3, 0u64), (1, 1), (1, 4), (1, 15)]) }
    }

    fn execute(&self, case: &ShutdownCase) -> Outcome {
        simrt::install_panic_hook();
        let _ = simrt::take_panics();
        let mut out = Outcome::default();
        let rt = simrt::runtime();
        let local = tokio::task::LocalSet::new();
        let n_conns = case.conns.len();
        let result = std::panic::catch_unwind(std::panic::AssertUnwindSafe(|| {
            local.block_on(&rt, async {
                crate::net::reset_ops();
                let pump = tokio::task::spawn_local(crate::net::time_pump());
                let _g = super::AbortOnDrop(pump);
                let net = Network::new(case.seed, NetPlan::plain());
                let log = Arc::new(Mutex::new(HandlerLog::default()));
                let mut plans = BTreeMap::new();
                for c in &case.conns {
                    for r in &c.reqs {
                        plans.insert(r.id, r.handler.clone());
                    }
                }
                for id in [900u32, 901, 902, 800] {
                    plans.insert(id, HandlerPlan::default());
                }
                let ctx = HandlerCtx { net: net.clone(), log: log.clone(), plans: Arc::new(plans), origin: "http://srv.test".into() };
                let acc = net.listen("http://srv.test");
                let (tx, rx) = tokio::sync::oneshot::channel();
                let exec = SimExecutor { start_delay_ms: case.exec_delay_ms, ..SimExecutor::default() };
                let t0 = tokio::time::Instant::now();
                let net_s = net.clone();
                #[allow(clippy::type_complexity)]
                let server_slot: Arc<Mutex<Option<((u64, u64), Result<(), String>)>>> = Arc::new(Mutex::new(None));
                let server = tokio::task::spawn_local({
                    let tls_cfg = if case.tls { Some(crate::tlsfix::server_config(crate::tlsfix::CertKind::Good, &[])) } else { None };
                    let f = run_server_held(acc, case.proto, tls_cfg, ctx, exec.clone(), Some(rx), case.native_builder, false, if case.hold_server_future { Some(server_slot.clone()) } else { None });
                    let (slot, hold) = (server_slot.clone(), case.hold_server_future);
                    async move {
                        let mut f = Box::pin(f);
                        let r = (&mut f).await;
                        // completion instant (and how much of the clock's progress was the time pump's)
                        // (with `hold` the call above never returns: the finished serving future stays
                        // alive inside it and the outcome has been left in the slot)
                        let _ = hold;
                        *slot.lock() = Some(((net_s.now_ms(), crate::net::pumped_ms()), r.map_err(|e| e.to_string())));
                        drop(f);
                    }
                });
                let mut obs: Vec<Arc<Mutex<ConnObs>>> = vec![];
                let mut tasks = vec![];
                // the connection of the instant request: connected now, silent until the signal
                let instant_obs = Arc::new(Mutex::new(ConnObs::default()));
                let mut instant_io = if case.instant_request > 0 && !case.tls {
                    match net.raw_connect("http://srv.test", None) {
                        Ok(io) => {
                            instant_obs.lock().connected_ms = Some(net.now_ms());
                            instant_obs.lock().c2s = Some(io.tx.clone());
                            Some(io)
                        }
                        Err(_) => None,
                    }
                } else {
                    None
                };
                for (i, c) in case.conns.iter().cloned().enumerate() {
                    let o = Arc::new(Mutex::new(ConnObs::default()));
                    obs.push(o.clone());
                    let net = net.clone();
                    let tls = case.tls;
                    let mode = if case.io_faulty {
                        let mut r = Rng::keyed(case.seed, &format!("shutdown/mode/{}", i));
                        let mut a = IoMode::draw_roomy(&mut r);
                        let mut b = IoMode::draw_roomy(&mut r);
                        a.max_delay_ms = a.max_delay_ms.min(5);
                        b.max_delay_ms = b.max_delay_ms.min(5);
                        Some((a, b))
                    } else {
                        None
                    };
                    tasks.push(tokio::task::spawn_local(async move {
                        tokio::time::sleep_until(t0 + Duration::from_millis(c.start_ms)).await;
                        match c.kind {
                            ConnKind::RawH1 => raw_h1_conn(net, c, o, mode, tls).await,
                            ConnKind::H2 => h2_conn(net, c, o, mode, tls).await,
                            k => silent_conn(net, o, k).await,
                        }
                    }));
                }
                // the signal
                tokio::time::sleep_until(t0 + Duration::from_millis(case.signal_at_ms)).await;
                let t_s = net.now_ms();
                let pumped_at_signal = crate::net::pumped_ms();
                let _ = tx.send(());
                let instant_spec = ReqSpec { id: 800, gap_ms: 0, head_split: None, body_len: 0, body_chunk: 10, body_delay_ms: 0, handler: HandlerPlan::default(), pipeline_bytes: 0 };
                if let Some(mut io) = instant_io.take() {
                    use futures_util::FutureExt;
                    // synchronously: the pipe has room for the whole request
                    let bytes = if case.instant_request == 2 { TINY_REQUEST.to_vec() } else { head_bytes(&instant_spec) };
                    let wrote = io.write_all(&bytes).now_or_never();
                    let (o, net) = (instant_obs.clone(), net.clone());
                    tasks.push(tokio::task::spawn_local(async move {
                        o.lock().first_byte_ms = Some(net.now_ms());
                        if !matches!(wrote, Some(Ok(()))) {
                            o.lock().results.push((800, net.now_ms(), Some("send: the request could not be written at once".into())));
                            o.lock().closed_ms = Some(net.now_ms());
                            return;
                        }
                        let mut io: Box<dyn Io> = Box::new(io);
                        let mut carry = vec![];
                        let res = read_response(&mut io, 800, HandlerPlan::default().resp_len, &mut carry).await;
                        o.lock().results.push((800, net.now_ms(), res.err()));
                        let mut b = [0u8; 16];
                        loop {
                            match io.read(&mut b).await {
                                Ok(0) | Err(_) => break,
                                Ok(_) => {}
                            }
                        }
                        o.lock().closed_ms = Some(net.now_ms());
                    }));
                }
                // a connect that is queued at the very instant of the signal, before the server task
                // has run again: it sits in the acceptor when the server next looks
                {
                    let o = Arc::new(Mutex::new(ConnObs::default()));
                    obs.push(o.clone());
                    let io = net.raw_connect("http://srv.test", None);
                    let (net, tls) = (net.clone(), case.tls);
                    tasks.push(tokio::task::spawn_local(async move {
                        let plan = ConnPlan {
                            kind: ConnKind::RawH1,
                            start_ms: 0,
                            reqs: vec![ReqSpec { id: 902, gap_ms: 0, head_split: None, body_len: 0, body_chunk: 10, body_delay_ms: 0, handler: HandlerPlan::default(), pipeline_bytes: 0 }],
                        };
                        raw_h1_conn_on(net, plan, o, io, tls).await;
                    }));
                }
                // two late connects
                for (k, delay) in [(900u32, 1u64), (901, 40)] {
                    let o = Arc::new(Mutex::new(ConnObs::default()));
                    obs.push(o.clone());
                    let net = net.clone();
                    let tls = case.tls;
                    tasks.push(tokio::task::spawn_local(async move {
                        tokio::time::sleep(Duration::from_millis(delay)).await;
                        let plan = ConnPlan {
                            kind: ConnKind::RawH1,
                            start_ms: 0,
                            reqs: vec![ReqSpec { id: k, gap_ms: 0, head_split: None, body_len: 0, body_chunk: 10, body_delay_ms: 0, handler: HandlerPlan::default(), pipeline_bytes: 0 }],
                        };
                        raw_h1_conn(net, plan, o, None, tls).await;
                    }));
                }
                let all = async {
                    for t in tasks {
                        let _ = t.await;
                    }
                };
                let finished_in_time = tokio::time::timeout(Duration::from_secs(120), all).await.is_ok();
                // connection tasks get the same grace period to finish as connections get to close
                let grace = if case.io_faulty { 5000 } else { 1000 };
                for _ in 0..grace / 10 {
                    if *exec.spawned.lock() == *exec.finished.lock() {
                        break;
                    }
                    tokio::time::sleep(Duration::from_millis(10)).await;
                }
                let server_result = server_slot.lock().take();
                server.abort();
                let obs: Vec<ConnObs> = obs.iter().map(|o| o.lock().clone()).collect();
                let instant = instant_obs.lock().clone();
                let seen = log.lock().seen.clone();
                let spawned = *exec.spawned.lock();
                let finished = *exec.finished.lock();
                ((t_s, pumped_at_signal), server_result, obs, seen, spawned, finished, finished_in_time, net.now_ms(), instant)
            })
        }));
        drop(local);
        drop(rt);
        if let Some(m) = crate::net::take_spin() {
            out.violations.push(Violation::new("C07", "spins_after_end_of_stream", json!({"proto": format!("{:?}", case.proto)}), format!("a reader in the library keeps reading a closed connection in a loop without yielding: {}", m)));
        }
        for p in simrt::take_panics() {
            if p.in_harness() {
                out.harness_error = Some(format!("harness panic {} at {}", p.message, p.location()));
            } else {
                out.violations.push(Violation::new("C07", "panic", json!({"location": p.location()}), format!("panic: {} at {}", p.message, p.location())));
            }
        }
        let Ok(((t_s, pumped_at_signal), server_result, obs, seen, spawned, finished, finished_in_time, end, instant)) = result else { return out };
        if std::env::var("VERIF_TRACE").is_ok() {
            eprintln!("signal at {} ms, server {:?}, tasks {}/{} finished, end {} ms", t_s, server_result, finished, spawned, end);
            for (i, o) in obs.iter().enumerate() {
                eprintln!("conn {}: connected {:?} refused {} results {:?} closed {:?} first byte {:?} reason {:?} consumed {:?}", i, o.connected_ms, o.refused, o.results, o.closed_ms, o.first_byte_ms, o.close_reason, o.c2s.as_ref().map(|p| p.lock().read));
            }
            for s in &seen {
                eprintln!("handler: {:?}", s);
            }
        }
        let slack = if case.io_faulty { 5000 } else { 1000 };
        let psig = json!({"proto": format!("{:?}", case.proto)});
        let mut viol = |rule: &str, detail: String| {
            out.violations.push(Violation::new("C07", rule, psig.clone(), detail));
        };
        // (1) the serving future completes successfully at the signal
        match &server_result {
            None => viol("server_still_running", format!("the serving future had not completed {} ms after the shutdown signal", end - t_s)),
            Some(((t, _), Err(e))) => viol("server_error", format!("serving future ended with an error at {} ms: {}", t, e)),
            Some(((t, pumped), Ok(()))) => {
                // the time pump may move the clock between the signal and the poll that observes it
                // (busy-polling peers); only time that passed for another reason counts as late
                if t.saturating_sub(*pumped) != t_s.saturating_sub(pumped_at_signal) {
                    viol("server_late", format!("signal at {} ms, serving future completed at {} ms", t_s, t));
                }
            }
        }
        // (2) nothing connected after the signal is served
        for s in &seen {
            if s.id >= 900 {
                viol("served_after_shutdown", format!("a connection opened after the signal was served (request {}, handler started at {} ms, signal {} ms)", s.id, s.start_ms, t_s));
            }
        }
        for o in obs.iter().skip(n_conns) {
            if o.results.iter().any(|r| r.2.is_none()) {
                viol("served_after_shutdown", "a connection opened after the signal received a response".into());
            }
        }
        // (3) requests whose handler had started get their complete, correct response
        let mut consumed_judged = 0u64;
        let mut stages: Vec<&'static str> = vec![];
        let mut not_closed: Vec<(usize, ConnKind, &'static str)> = vec![];
        for (ci, c) in case.conns.iter().enumerate() {
            let o = &obs[ci];
            for r in &c.reqs {
                let started = seen.iter().find(|s| s.id == r.id);
                let result = o.results.iter().find(|x| x.0 == r.id);
                if let Some(s) = started {
                    if s.start_ms < t_s {
                        match result {
                            Some((_, _, None)) => out_count(&mut stages, "served_after_signal"),
                            Some((_, t, Some(e))) => viol(
                                "started_request_failed",
                                format!("request {} reached the handler at {} ms (signal {} ms) but the client got: {} at {} ms", r.id, s.start_ms, t_s, e, t),
                            ),
                            None => viol("started_request_lost", format!("request {} reached the handler at {} ms (signal {} ms) and never completed", r.id, s.start_ms, t_s)),
                        }
                    }
                }
            }
            // (3b) A request the server has taken off the connection completely is a request it has
            // started to handle, whatever the handler log says: the first request of a plain
            // HTTP/1 connection that was open at the signal and whose every byte the server
            // consumed must be answered (the client cannot tell a request that vanished inside the
            // server from one that was processed). Later requests of the connection are not judged
            // (a pipelined request may sit in the server's read buffer when keep-alive ends).
            if let (Some(pipe), Some(r), Some(c0)) = (&o.c2s, c.reqs.first(), o.connected_ms) {
                let consumed = pipe.lock().read;
                let whole = head_bytes(r).len() as u64 + r.body_len as u64;
                if c0 <= t_s && consumed >= whole && !c.kind.silent() {
                    consumed_judged += 1;
                    match o.results.iter().find(|x| x.0 == r.id) {
                        Some((_, _, None)) => {}
                        other => viol(
                            "consumed_request_not_answered",
                            format!(
                                "connection {} was open at the signal ({} ms); the server took all {} bytes of its first request {} off the connection, but the client got {:?} (handler log: {:?})",
                                ci,
                                t_s,
                                whole,
                                r.id,
                                other.map(|x| x.2.clone()),
                                seen.iter().find(|s| s.id == r.id).map(|s| s.start_ms)
                            ),
                        ),
                    }
                }
            }
            // stage of this connection at the signal (for probes / distinct measure)
            let stage = match (o.connected_ms, o.closed_ms) {
                (None, _) => "not_connected",
                (Some(c0), _) if c0 > t_s => "not_connected",
                (_, Some(cl)) if cl < t_s => "closed_before",
                _ => {
                    if c.kind.silent() {
                        "sniffing_no_bytes"
                    } else {
                        let mut st = "idle_keepalive";
                        for r in &c.reqs {
                            let s = seen.iter().find(|s| s.id == r.id);
                            let done = o.results.iter().find(|x| x.0 == r.id).map(|x| x.1);
                            match (s, done) {
                                (Some(s), d) if s.start_ms <= t_s && d.map(|d| d > t_s).unwrap_or(true) => {
                                    st = if s.body_done_ms.map(|b| b > t_s).unwrap_or(true) {
                                        "request_body"
                                    } else if s.responded_ms.map(|b| b > t_s).unwrap_or(true) {
                                        "in_handler"
                                    } else {
                                        "response_body"
                                    };
                                }
                                (None, None) if o.first_byte_ms.map(|f| f <= t_s).unwrap_or(false) && st == "idle_keepalive" && r.head_split.is_some() => {}
                                _ => {}
                            }
                        }
                        st
                    }
                }
            };
            stages.push(stage);
            // (4)/(5)/(6) the server closes every connection and does so promptly
            if o.connected_ms.is_some() {
                let last_activity = o.results.iter().map(|x| x.1).max().unwrap_or(0).max(t_s);
                match o.closed_ms {
                    // (a serving future that is kept alive keeps its listener: a connect at or after
                    // the signal then waits in the accept queue of a server that accepts no more -
                    // the caller's doing, who can drop the future)
                    None if case.hold_server_future && o.connected_ms.map(|c0| c0 >= t_s).unwrap_or(false) => {}
                    None => not_closed.push((ci, c.kind, stage)),
                    Some(cl) => {
                        if cl > last_activity + slack {
                            viol(
                                "connection_closed_late",
                                format!("connection {} ({:?}, stage {}) closed at {} ms; signal {} ms, last exchange finished {} ms", ci, c.kind, stage, cl, t_s, last_activity),
                            );
                        }
                    }
                }
            }
        }
        // (3c) the connection whose request was put on the wire in the step that fired the signal:
        // open and silent until then; if the server took the whole request it must answer it,
        // and in any case it must close the connection
        if let (Some(pipe), Some(_)) = (&instant.c2s, instant.connected_ms) {
            let spec = ReqSpec { id: 800, gap_ms: 0, head_split: None, body_len: 0, body_chunk: 10, body_delay_ms: 0, handler: HandlerPlan::default(), pipeline_bytes: 0 };
            let consumed = pipe.lock().read;
            let whole = if case.instant_request == 2 { TINY_REQUEST.len() as u64 } else { head_bytes(&spec).len() as u64 };
            let answered = matches!(instant.results.first(), Some((_, _, None)));
            if consumed >= whole {
                consumed_judged += 1;
                if !answered {
                    viol(
                        "consumed_request_not_answered",
                        format!(
                            "a connection open (and silent) since 0 ms sent its request at the instant of the signal ({} ms); the server took all {} bytes of it off the connection, but the client got {:?} (handler started: {:?})",
                            t_s,
                            whole,
                            instant.results.first().map(|x| x.2.clone()),
                            seen.iter().find(|s| s.id == 800).map(|s| s.start_ms)
                        ),
                    );
                }
            }
            match instant.closed_ms {
                // (signal at the very instant of the connect: never accepted, see above)
                None if case.hold_server_future && instant.connected_ms.map(|c0| c0 >= t_s).unwrap_or(false) => {}
                None => viol("instant_connection_not_closed", format!("the connection that sent its request at the instant of the signal ({} ms) was never closed by the server", t_s)),
                Some(cl) => {
                    let last = instant.results.iter().map(|x| x.1).max().unwrap_or(0).max(t_s);
                    if cl > last + slack {
                        viol("connection_closed_late", format!("the connection that sent its request at the instant of the signal closed at {} ms; signal {} ms, exchange finished {} ms", cl, t_s, last));
                    }
                }
            }
        }
        drop(viol);
        out.add("probe.first_request_consumed_by_server_judged", consumed_judged);
        if instant.connected_ms.is_some() {
            out.count(if matches!(instant.results.first(), Some((_, _, None))) { "probe.request_at_signal_instant_served" } else { "probe.request_at_signal_instant_refused" });
        }
        for (ci, kind, stage) in &not_closed {
            out.violations.push(Violation::new(
                "C07",
                "connection_not_closed",
                json!({"proto": format!("{:?}", case.proto), "kind": kind.class(), "stage": stage}),
                format!("connection {} ({:?}, stage {} at the signal) was never closed by the server", ci, kind, stage),
            ));
        }
        if spawned != finished {
            // a connection that is never closed keeps its task alive: report the leak separately only
            // when it is not explained by those
            let explained = not_closed.len() as u64;
            let only_pending_h2_handshake = case.proto == ServerProto::H2 && not_closed.iter().all(|(_, k, _)| k.silent());
            out.violations.push(Violation::new(
                "C07",
                "connection_task_leaked",
                json!({"proto": format!("{:?}", case.proto), "beyond_unclosed_connections": spawned - finished > explained, "only_silent_on_http2_only_server": only_pending_h2_handshake}),
                format!("{} connection tasks spawned, {} finished after shutdown ({} connections were never closed)", spawned, finished, explained),
            ));
        }
        if !finished_in_time {
            out.count("probe.horizon_reached");
        }
        for s in &stages {
            out.count(&format!("probe.signal_while_{}", s));
        }
        if case.tls {
            out.count("probe.tls_acceptor_runs");
            for (ci, c) in case.conns.iter().enumerate() {
                let open_at_signal = obs[ci].connected_ms.map(|t| t <= t_s).unwrap_or(false) && obs[ci].closed_ms.map(|t| t >= t_s).unwrap_or(true);
                if open_at_signal {
                    match c.kind {
                        ConnKind::TlsStall => out.count("probe.signal_while_tls_handshake_stalled"),
                        ConnKind::SilentAfterTls => out.count("probe.signal_while_tls_established_no_bytes"),
                        _ => {}
                    }
                }
            }
        }
        let mut sig = Digest::default();
        sig.push(case.proto as u64);
        let mut st = stages.clone();
        st.sort();
        for s in &st {
            sig.push_str(s);
        }
        out.abstract_sig = sig.0;
        let mut log = Digest::default();
        log.push(t_s);
        log.push(end);
        for o in &obs {
            log.push(o.closed_ms.unwrap_or(u64::MAX));
            for r in &o.results {
                log.push(r.0 as u64);
                log.push(r.1);
                log.push(r.2.is_some() as u64);
            }
        }
        log.push(spawned);
        out.log_digest = log.0;
        out.sim_ms = end;
        out.nontrivial = stages.iter().any(|s| !matches!(*s, "not_connected" | "closed_before" | "served_after_signal"));
        out.faulty = case.io_faulty;
        out
    }

    fn shrink(&self, case: &ShutdownCase) -> Vec<ShutdownCase> {
        let mut v = vec![];
        for i in 0..case.conns.len() {
            let mut c = case.clone();
            c.conns.remove(i);
            v.push(c);
        }
        for i in 0..case.conns.len() {
            for j in 0..case.conns[i].reqs.len() {
                let mut c = case.clone();
                c.conns[i].reqs.remove(j);
                v.push(c);
            }
        }
        if case.io_faulty {
            let mut c = case.clone();
            c.io_faulty = false;
            v.push(c);
        }
        for i in 0..case.conns.len() {
            if case.conns[i].start_ms > 0 {
                let mut c = case.clone();
                c.conns[i].start_ms = 0;
                v.push(c);
            }
            for j in 0..case.conns[i].reqs.len() {
                let r = &case.conns[i].reqs[j];
                if r.head_split.is_some() || r.body_len > 0 || r.gap_ms > 0 {
                    let mut c = case.clone();
                    c.conns[i].reqs[j].head_split = None;
                    c.conns[i].reqs[j].body_len = 0;
                    c.conns[i].reqs[j].gap_ms = 0;
                    v.push(c);
                }
                if r.handler.resp_len > 10 || r.handler.resp_delay_ms > 0 {
                    let mut c = case.clone();
                    c.conns[i].reqs[j].handler.resp_len = 10;
                    c.conns[i].reqs[j].handler.resp_delay_ms = 0;
                    v.push(c);
                }
            }
        }
        if case.exec_delay_ms > 0 {
            let mut c = case.clone();
            c.exec_delay_ms = 0;
            v.push(c);
        }
        for t in [0u64, case.signal_at_ms / 2] {
            if t < case.signal_at_ms {
                let mut c = case.clone();
                c.signal_at_ms = t;
                v.push(c);
            }
        }
        v
    }
}

fn out_count(stages: &mut Vec<&'static str>, s: &'static str) {
    stages.push(s);
}
