//! Engine B, mode `grammar` (C17): one request per run drawn from a grammar of versions,
//! methods, URI forms and hosts, sent through the Client stack, the pool service without a pool
//! and the plain connector service, over plain and TLS transports. The only oracle is the panic
//! monitor plus "the caller gets an answer" (response or error) in bounded virtual time.

use std::collections::BTreeMap;
use std::sync::Arc;
use std::time::Duration;

use http_body_util::BodyExt;
use parking_lot::Mutex;
use serde::{Deserialize, Serialize};
use serde_json::json;
use tower::{Service, ServiceExt};

use super::infra::*;
use super::ClientCfg;
use crate::framework::{Outcome, Scenario, ScenarioInfo, Tier, Violation};
use crate::rng::{Digest, Rng};
use crate::{simrt, tlsfix};

#[derive(Clone, Copy, Debug, Serialize, Deserialize, PartialEq, Eq)]
pub enum Via {
    /// Client builder stack with a pool
    Client,
    /// Client builder stack without a pool (detached checkouts)
    ClientNoPool,
    /// ConnectorService + the ExecuteRequest layers, transport routed by URI
    Connector,
    /// ConnectorService over a transport that ignores the URI (always reaches the server)
    ConnectorFixed,
    /// ConnectionPoolService::new(transport, protocol, RequestExecutor, config) - the pooled service
    /// on its own, without the checking layers the Client builder puts below it (what
    /// ConnectionPoolService::new_tcp_http() builds)
    PoolBare,
    /// ConnectorLayer + RequestExecutor only, over the URI-agnostic transport
    ConnectorBare,
    /// ConnectorLayer + RequestExecutor over the real TcpTransport with a resolver that always
    /// fails: the TCP transport's own reading of the URI (host, port, scheme defaults) without
    /// a socket ever being opened
    TcpNoDns,
}

#[derive(Clone, Debug, Serialize, Deserialize)]
pub struct GrammarCase {
    pub seed: u64,
    pub via: Via,
    pub tls: bool,
    pub version: String,
    pub method: String,
    pub uri: String,
    pub headers: Vec<(String, String)>,
    pub body_len: usize,
}

pub struct GrammarSim;

const VERSIONS: [&str; 5] = ["HTTP/0.9", "HTTP/1.0", "HTTP/1.1", "HTTP/2.0", "HTTP/3.0"];
const METHODS: [&str; 9] = ["GET", "POST", "HEAD", "CONNECT", "OPTIONS", "TRACE", "PATCH", "PURGE", "M-SEARCH"];
const URIS: [&str; 38] = [
    // ports http::Uri accepts as text: out of range, empty, zero
    "http://a.test:99999/",
    "http://a.test:/r/1/x",
    "https://a.test:0/",
    "https://[::1]:65536/",
    "http://a.test/r/1/x",
    "http://a.test",
    "http://a.test/",
    "http://a.test:8080/r/1/x?q=1",
    "https://a.test/r/1/x",
    "https://a.test:8443/",
    "https://127.0.0.1/r/1/x",
    "https://[::1]/r/1/x",
    "http://[::1]:8080/",
    "http://10.0.0.7/",
    "http://a_b.test/",
    "https://a_b.test/",
    "https://a~b.test/",
    "https://%41.test/",
    "http://A.TEST/UPPER",
    "ws://a.test/chat",
    "wss://a.test/chat",
    "foo://a.test/x",
    "/r/1/relative?x=1",
    "/",
    "*",
    "a.test:443",
    "a.test:80",
    "http://a.test:65535/",
    "http://user@a.test/",
    "https://xn--nxasmq6b.test/",
    // empty path with a query, root path with a query, scheme spelt in capitals, odd path shapes
    "http://a.test?x=1",
    "https://a.test:8443?x=1&y=2",
    "http://a.test/?x=1",
    "HTTP://a.test/r/1/x",
    "Wss://a.test/chat?x",
    "http://a.test//double//slash",
    "http://a.test/%2F%3F?%23",
    "http://a.test/r/1/x?",
];

fn version(s: &str) -> http::Version {
    match s {
        "HTTP/0.9" => http::Version::HTTP_09,
        "HTTP/1.0" => http::Version::HTTP_10,
        "HTTP/2.0" => http::Version::HTTP_2,
        "HTTP/3.0" => http::Version::HTTP_3,
        _ => http::Version::HTTP_11,
    }
}

type ExecSvc = hyperdriver::service::SharedService<http::Request<ChunkBody>, http::Response<hyperdriver::Body>, hyperdriver::client::Error>;

fn connector_service(net: &Network, tls: bool, fixed: Option<String>) -> ExecSvc {
    use hyperdriver::client::conn::connector::ConnectorLayer;
    use hyperdriver::client::conn::protocol::auto::HttpConnectionBuilder;
    use hyperdriver::client::conn::transport::TransportExt;
    use hyperdriver::service::{Http1ChecksLayer, Http2ChecksLayer, IncomingResponseLayer, RequestExecutor, SetHostHeaderLayer};
    let mut t = net.transport();
    t.fixed = fixed;
    let transport = if tls { t.with_tls(tlsfix::client_config(&["h2", "http/1.1"])) } else { t.without_tls() };
    let svc = tower::ServiceBuilder::new()
        .layer(hyperdriver::service::SharedService::layer())
        .layer(IncomingResponseLayer::new())
        .layer(ConnectorLayer::new(transport, HttpConnectionBuilder::<ChunkBody>::default()))
        .layer(SetHostHeaderLayer::new())
        .layer(Http2ChecksLayer::new())
        .layer(Http1ChecksLayer::new())
        .service(RequestExecutor::new());
    svc
}

fn bare_connector_service(net: &Network, tls: bool, fixed: Option<String>) -> ExecSvc {
    use hyperdriver::client::conn::connector::ConnectorLayer;
    use hyperdriver::client::conn::protocol::auto::HttpConnectionBuilder;
    use hyperdriver::client::conn::transport::TransportExt;
    use hyperdriver::service::{IncomingResponseLayer, RequestExecutor};
    let mut t = net.transport();
    t.fixed = fixed;
    let transport = if tls { t.with_tls(tlsfix::client_config(&["h2", "http/1.1"])) } else { t.without_tls() };
    tower::ServiceBuilder::new()
        .layer(hyperdriver::service::SharedService::layer())
        .layer(IncomingResponseLayer::new())
        .layer(ConnectorLayer::new(transport, HttpConnectionBuilder::<ChunkBody>::default()))
        .service(RequestExecutor::new())
}

fn tcp_connector_service(tls: bool) -> ExecSvc {
    use hyperdriver::client::conn::connector::ConnectorLayer;
    use hyperdriver::client::conn::dns::SocketAddrs;
    use hyperdriver::client::conn::protocol::auto::HttpConnectionBuilder;
    use hyperdriver::client::conn::transport::tcp::TcpTransport;
    use hyperdriver::client::conn::transport::TransportExt;
    use hyperdriver::service::{IncomingResponseLayer, RequestExecutor};
    let resolver = tower::service_fn(|_host: Box<str>| async move { Err::<SocketAddrs, std::io::Error>(std::io::Error::new(std::io::ErrorKind::Other, "no name service in the simulator")) });
    let t: TcpTransport<_, hyperdriver::stream::tcp::TcpStream> = TcpTransport::builder().with_resolver(resolver).build();
    let transport = if tls { t.with_tls(tlsfix::client_config(&["h2", "http/1.1"])) } else { t.without_tls() };
    tower::ServiceBuilder::new()
        .layer(hyperdriver::service::SharedService::layer())
        .layer(IncomingResponseLayer::new())
        .layer(ConnectorLayer::new(transport, HttpConnectionBuilder::<ChunkBody>::default()))
        .service(RequestExecutor::new())
}

fn bare_pool_service(net: &Network, tls: bool) -> ExecSvc {
    use hyperdriver::client::conn::protocol::auto::HttpConnectionBuilder;
    use hyperdriver::client::conn::transport::TransportExt;
    use hyperdriver::service::{IncomingResponseLayer, RequestExecutor};
    let t = net.transport();
    let transport = if tls { t.with_tls(tlsfix::client_config(&["h2", "http/1.1"])) } else { t.without_tls() };
    let pooled: hyperdriver::client::ConnectionPoolService<_, _, _, ChunkBody, hyperdriver::client::pool::UriKey> = hyperdriver::client::ConnectionPoolService::new(transport, HttpConnectionBuilder::<ChunkBody>::default(), RequestExecutor::new(), hyperdriver::client::PoolConfig::default());
    tower::ServiceBuilder::new().layer(hyperdriver::service::SharedService::layer()).layer(IncomingResponseLayer::new()).service(pooled)
}

impl Scenario for GrammarSim {
    type Case = GrammarCase;

    fn engine(&self) -> &'static str {
        "grammar"
    }

    fn info(&self) -> ScenarioInfo {
        ScenarioInfo {
            rule: "one request per run: every http::Version constant x methods (standard, extension, CONNECT) x URI forms (absolute with names, IPv4, bracketed IPv6, odd-but-legal reg-names, userinfo, explicit/edge ports; origin-form; asterisk; authority-form) x optional pre-set headers x body, through Client (with and without pool), ConnectorService routed by URI, ConnectorService over a URI-agnostic transport and ConnectorService over the real TcpTransport (resolver that always fails), plain and TLS, against real hyperdriver servers for the routable authorities. The full cross product version x method x URI x via x tls is enumerated; random cases add headers and bodies. Oracle: no panic anywhere (caller's task or library-spawned tasks; the build has debug assertions on, like the repository's own test profile) and the call resolves within a minute of virtual time. Non-trivial: anything but a plain GET of a routable absolute http URI with version 1.1 or 2; distinct = the case tuple.".into(),
            real: vec![
                "client::Builder::build_service stack, ConnectionPoolService (pooled and detached), ConnectorService, SetHostHeader / Http2Checks / Http1Checks / RequestExecutor, HttpConnectionBuilder, TlsTransport, UriKey",
                "real hyperdriver servers behind the routable authorities",
            ],
            stub: vec!["network (SimNet)", "name resolution below TcpTransport (a resolver that always fails: TcpTransport reads the URI - get_host_and_port - and stops there; no socket is opened)"],
            assumptions: vec!["a request http::Request::builder() refuses to construct is not a well-typed request and is skipped"],
        }
    }

    fn num_cases(&self, tier: Tier) -> (u64, u64) {
        let e = (VERSIONS.len() * METHODS.len() * URIS.len() * 7 * 2) as u64;
        (e, if tier == Tier::Quick { 2000 } else { 200_000 })
    }

    fn case(&self, index: u64, seed: u64, _tier: Tier) -> GrammarCase {
        let total = (VERSIONS.len() * METHODS.len() * URIS.len() * 7 * 2) as u64;
        let vias = [Via::Client, Via::ClientNoPool, Via::Connector, Via::ConnectorFixed, Via::PoolBare, Via::ConnectorBare, Via::TcpNoDns];
        if index < total {
            let mut i = index;
            let v = (i % VERSIONS.len() as u64) as usize;
            i /= VERSIONS.len() as u64;
            let m = (i % METHODS.len() as u64) as usize;
            i /= METHODS.len() as u64;
            let u = (i % URIS.len() as u64) as usize;
            i /= URIS.len() as u64;
            let via = vias[(i % 7) as usize];
            i /= 7;
            return GrammarCase { seed: 5, via, tls: i % 2 == 1, version: VERSIONS[v].into(), method: METHODS[m].into(), uri: URIS[u].into(), headers: vec![], body_len: 0 };
        }
        let mut r = Rng::keyed(seed, "grammar");
        let mut headers = vec![];
        // (headers that contradict the actual body framing - a content-length that lies - are a
        // caller error that makes the *server* wait, not a library fault, and are left out)
        // values with bytes >= 0x80 are legal HeaderValues (obs-text); they are kept in the case as
        // Latin-1 characters
        for (k, v) in [
            ("host", "x.example"),
            ("connection", "close"),
            ("upgrade", "h2c"),
            ("te", "trailers"),
            ("expect", "100-continue"),
            ("accept", "*/*"),
            ("connection", "close, caf\u{e9}"),
            ("connection", "\u{ff}"),
            ("te", "\u{fe}"),
            ("upgrade", "\u{e9}"),
            ("keep-alive", "\u{80}"),
            ("host", "\u{e9}.example"),
            ("x-odd", "\u{ff}\u{80}"),
            ("user-agent", "\u{e9}"),
        ] {
            if r.chance(1, 6) {
                headers.push((k.to_string(), v.to_string()));
            }
        }
        GrammarCase {
            seed,
            via: *r.pick(&vias),
            tls: r.bool(),
            version: r.pick(&VERSIONS).to_string(),
            method: r.pick(&METHODS).to_string(),
            uri: r.pick(&URIS).to_string(),
            headers,
            body_len: *r.pick(&[0usize, 0, 3, 100]),
        }
    }

    fn execute(&self, case: &GrammarCase) -> Outcome {
        simrt::install_panic_hook();
        let _ = simrt::take_panics();
        let mut out = Outcome::default();
        let rt = simrt::runtime();
        let local = tokio::task::LocalSet::new();
        let result = std::panic::catch_unwind(std::panic::AssertUnwindSafe(|| {
            local.block_on(&rt, async {
                crate::net::reset_ops();
                let pump = tokio::task::spawn_local(crate::net::time_pump());
                let _g = super::AbortOnDrop(pump);
                let net = Network::new(case.seed, NetPlan::plain());
                let log = Arc::new(Mutex::new(HandlerLog::default()));
                let mut plans = BTreeMap::new();
                plans.insert(1u32, HandlerPlan::default());
                let plans = Arc::new(plans);
                let mut servers = vec![];
                for o in ["http://a.test", "http://a.test:8080", "https://a.test", "https://a.test:8443", "https://127.0.0.1", "https://[::1]", "http://[::1]:8080", "http://10.0.0.7", "ws://a.test", "wss://a.test", "foo://a.test", "http://user@a.test"] {
                    let acc = net.listen(o);
                    let tls = if o.starts_with("https") || o.starts_with("wss") { Some(tlsfix::server_config(tlsfix::CertKind::Good, &["h2", "http/1.1"])) } else { None };
                    let ctx = HandlerCtx { net: net.clone(), log: log.clone(), plans: plans.clone(), origin: o.to_string() };
                    servers.push(tokio::task::spawn_local(run_server(acc, ServerProto::Auto, tls, ctx, SimExecutor::default(), None)));
                }
                let mut b = http::Request::builder().method(case.method.as_str()).uri(case.uri.as_str()).version(version(&case.version));
                b = b.header("x-req-id", "1").header("x-body-len", case.body_len.to_string());
                for (k, v) in &case.headers {
                    let bytes: Vec<u8> = v.chars().map(|c| c as u32 as u8).collect();
                    match http::HeaderValue::from_bytes(&bytes) {
                        Ok(hv) => b = b.header(k.as_str(), hv),
                        Err(_) => return (None, true),
                    }
                }
                let req = match b.body(ChunkBody::new(req_body(1, case.body_len), 50, 0)) {
                    Ok(r) => r,
                    Err(_) => return (None, true),
                };
                let fut = async {
                    match case.via {
                        Via::Client | Via::ClientNoPool => {
                            let cfg = ClientCfg { pool: case.via == Via::Client, idle_timeout_ms: None, max_idle: 32, continue_after_preemption: true, alpn_h2: true, timeout_ms: None, order: (crate::rng::fnv1a(format!("{}{}{}", case.uri, case.method, case.version).as_bytes()) % 24) as u8, busy: [0u8, 0, 0, 1, 3][(crate::rng::fnv1a(format!("busy{}{}{}", case.uri, case.method, case.version).as_bytes()) % 5) as usize] };
                            let svc = super::build_client(&net, &cfg, case.tls);
                            svc.oneshot(req).await
                        }
                        Via::Connector => connector_service(&net, case.tls, None).oneshot(req).await,
                        Via::PoolBare => bare_pool_service(&net, case.tls).oneshot(req).await,
                        Via::TcpNoDns => tcp_connector_service(case.tls).oneshot(req).await,
                        Via::ConnectorBare => {
                            let fixed = if case.tls { "https://a.test" } else { "http://a.test" };
                            bare_connector_service(&net, case.tls, Some(fixed.to_string())).oneshot(req).await
                        }
                        Via::ConnectorFixed => {
                            let fixed = if case.tls { "https://a.test" } else { "http://a.test" };
                            let mut svc = connector_service(&net, case.tls, Some(fixed.to_string()));
                            // also exercise poll_ready + call directly (not only oneshot)
                            let _ = std::future::poll_fn(|cx| svc.poll_ready(cx)).await;
                            svc.call(req).await
                        }
                    }
                };
                let r = tokio::time::timeout(Duration::from_secs(60), async {
                    match fut.await {
                        Ok(resp) => {
                            let _ = tokio::time::timeout(Duration::from_secs(20), resp.into_body().collect()).await;
                            Ok(())
                        }
                        Err(e) => Err(format!("{}", e)),
                    }
                })
                .await;
                // let library-spawned tasks (connection drivers, hand-back) run
                for _ in 0..8 {
                    tokio::task::yield_now().await;
                }
                for s in servers {
                    s.abort();
                }
                (Some(r), false)
            })
        }));
        drop(local);
        drop(rt);
        let panics = simrt::take_panics();
        for p in &panics {
            if p.in_harness() {
                out.harness_error = Some(format!("harness panic {} at {}", p.message, p.location()));
            } else {
                let msg: String = p.message.chars().take(60).collect();
                out.violations.push(Violation::new(
                    "C17",
                    "panic",
                    json!({"location": p.location()}),
                    format!("{} {} {} via {:?} (tls {}) panicked: {} at {}", case.method, case.uri, case.version, case.via, case.tls, msg, p.location()),
                ));
            }
        }
        let mut log = Digest::default();
        let mut sig = Digest::default();
        sig.push_str(&format!("{:?}{}{}{}{}", case.via, case.tls, case.version, case.method, case.uri));
        sig.push(case.headers.len() as u64);
        out.abstract_sig = sig.0;
        if let Ok((r, skipped)) = result {
            if skipped {
                out.count("probe.request_not_constructible");
            }
            match r {
                Some(Ok(Ok(()))) => {
                    out.count("probe.returned_response");
                    log.push(1);
                }
                Some(Ok(Err(_))) => {
                    out.count("probe.returned_error");
                    log.push(2);
                }
                Some(Err(_)) => {
                    log.push(3);
                    out.violations.push(Violation::new(
                        "C17",
                        "never_returns",
                        json!({"via": format!("{:?}", case.via)}),
                        format!("{} {} {} via {:?} (tls {}) returned neither a response nor an error within 60 s", case.method, case.uri, case.version, case.via, case.tls),
                    ));
                }
                None => {}
            }
        }
        log.push(panics.len() as u64);
        out.log_digest = log.0;
        out.nontrivial = !(case.method == "GET" && matches!(case.version.as_str(), "HTTP/1.1" | "HTTP/2.0") && case.uri == "http://a.test/r/1/x");
        out
    }

    fn shrink(&self, case: &GrammarCase) -> Vec<GrammarCase> {
        let mut v = vec![];
        for i in 0..case.headers.len() {
            let mut c = case.clone();
            c.headers.remove(i);
            v.push(c);
        }
        if case.body_len > 0 {
            let mut c = case.clone();
            c.body_len = 0;
            v.push(c);
        }
        if case.tls {
            let mut c = case.clone();
            c.tls = false;
            v.push(c);
        }
        if case.method != "GET" {
            let mut c = case.clone();
            c.method = "GET".into();
            v.push(c);
        }
        if case.version != "HTTP/1.1" {
            let mut c = case.clone();
            c.version = "HTTP/1.1".into();
            v.push(c);
        }
        v
    }
}
