//! Engine B, mode `realsock` (C09): the same property over hyperdriver's TCP and Unix acceptors.
//!
//! These acceptors wrap kernel sockets, for which there is no seam. What *is* controlled here
//! is the order of system calls: the server runs on a current-thread runtime and is only polled
//! when the driver awaits; faulty clients are plain blocking `std`/`socket2` sockets driven
//! inline, so "connect, write 5 bytes, reset" happens entirely between two polls of the server
//! (the connection is reset while it still sits in the listen backlog), or on either side of a
//! `Run` step that lets the server accept first. On loopback and Unix sockets the kernel
//! delivers the close/reset synchronously, so a case replays; the oracle never depends on it
//! (if a reset were late the case degenerates into "reset after accept", which is judged the
//! same way). Time is real here (only for the well-behaved clients' generous time-outs).

use std::collections::BTreeMap;
use std::io::Write;
use std::sync::Arc;
use std::time::Duration;

use parking_lot::Mutex;
use serde::{Deserialize, Serialize};
use serde_json::json;
use tokio::io::{AsyncReadExt, AsyncWriteExt};

use super::infra::*;
use super::srvfault::{check_response, request_bytes};
use crate::framework::{Outcome, Scenario, ScenarioInfo, Tier, Violation};
use crate::rng::{Digest, Rng};
use crate::{simrt, tlsfix};

#[derive(Clone, Copy, Debug, Serialize, Deserialize, PartialEq, Eq)]
pub enum RKind {
    Tcp,
    Unix,
}

#[derive(Clone, Debug, Serialize, Deserialize, PartialEq)]
pub enum RFault {
    /// connect, write `bytes` bytes of a valid request, close - all before the server is polled
    /// again, i.e. while the connection is still in the listen backlog. `rst`: SO_LINGER=0 (TCP)
    CloseInBacklog { rst: bool, bytes: usize },
    /// connect, let the server accept, write `bytes` bytes, let the server read, close
    CloseAfterAccept { rst: bool, bytes: usize },
    /// bytes that are no HTTP (nor TLS), then close, in the backlog
    Garbage,
    /// Unix only: the client socket is bound to a path that is not valid UTF-8; it then sends a
    /// complete valid request
    NonUtf8Peer,
    /// Unix only: the client socket is bound to an ordinary path
    NamedPeer,
}

#[derive(Clone, Debug, Serialize, Deserialize, PartialEq)]
pub enum REvent {
    Fault(RFault),
    Good(u32),
    /// let the server run for a moment
    Run,
}

#[derive(Clone, Debug, Serialize, Deserialize)]
pub struct RealCase {
    pub seed: u64,
    pub kind: RKind,
    pub tls: bool,
    pub proto: ServerProto,
    pub events: Vec<REvent>,
}

pub struct RealSockSim;

fn fault_name(f: &RFault) -> &'static str {
    match f {
        RFault::CloseInBacklog { rst: true, bytes: 0 } => "reset_in_backlog",
        RFault::CloseInBacklog { rst: true, .. } => "bytes_then_reset_in_backlog",
        RFault::CloseInBacklog { rst: false, bytes: 0 } => "close_in_backlog",
        RFault::CloseInBacklog { rst: false, .. } => "bytes_then_close_in_backlog",
        RFault::CloseAfterAccept { rst: true, .. } => "reset_after_accept",
        RFault::CloseAfterAccept { rst: false, .. } => "close_after_accept",
        RFault::Garbage => "garbage_in_backlog",
        RFault::NonUtf8Peer => "unix_peer_bound_to_non_utf8_path",
        RFault::NamedPeer => "unix_peer_bound_to_path",
    }
}

fn sock_dir() -> std::path::PathBuf {
    // short (sun_path is 108 bytes) and private to this process
    let base = std::env::var("VERIF_SOCK_DIR").map(std::path::PathBuf::from).unwrap_or_else(|_| std::env::temp_dir());
    let d = base.join(format!("hdsim-{}", std::process::id()));
    let _ = std::fs::create_dir_all(&d);
    d
}

static SOCK_SEQ: std::sync::atomic::AtomicU64 = std::sync::atomic::AtomicU64::new(0);

fn fresh_path(tag: &str) -> std::path::PathBuf {
    let n = SOCK_SEQ.fetch_add(1, std::sync::atomic::Ordering::Relaxed);
    sock_dir().join(format!("{}{}.s", tag, n))
}

#[derive(Clone)]
enum Target {
    Tcp(std::net::SocketAddr),
    Unix(std::path::PathBuf),
}

/// A blocking client socket, connected (the listener's backlog completes the connect).
fn blocking_connect(t: &Target, bind: Option<&std::path::Path>) -> std::io::Result<socket2::Socket> {
    use socket2::{Domain, SockAddr, Socket, Type};
    match t {
        Target::Tcp(a) => {
            let s = Socket::new(Domain::for_address(*a), Type::STREAM, None)?;
            s.connect(&SockAddr::from(*a))?;
            Ok(s)
        }
        Target::Unix(p) => {
            let s = Socket::new(Domain::UNIX, Type::STREAM, None)?;
            if let Some(b) = bind {
                s.bind(&SockAddr::unix(b)?)?;
            }
            s.connect(&SockAddr::unix(p)?)?;
            Ok(s)
        }
    }
}

fn close(s: socket2::Socket, rst: bool) {
    if rst {
        let _ = s.set_linger(Some(Duration::ZERO));
    }
    drop(s);
}

async fn let_server_run() {
    // parking the runtime makes it turn the I/O driver; a few rounds let accept + first read happen
    for _ in 0..3 {
        tokio::time::sleep(Duration::from_millis(1)).await;
    }
}

trait Io: tokio::io::AsyncRead + tokio::io::AsyncWrite + Unpin + Send {}
impl<T: tokio::io::AsyncRead + tokio::io::AsyncWrite + Unpin + Send> Io for T {}

async fn good_client(t: Target, tls: bool, id: u32, resp_len: usize) -> Result<(), String> {
    let exchange = async {
        let io: Box<dyn Io> = match &t {
            Target::Tcp(a) => Box::new(tokio::net::TcpStream::connect(a).await.map_err(|e| format!("connect: {}", e.kind()))?),
            Target::Unix(p) => Box::new(tokio::net::UnixStream::connect(p).await.map_err(|e| format!("connect: {}", e.kind()))?),
        };
        let mut io: Box<dyn Io> = if tls {
            let c = tokio_rustls::TlsConnector::from(tlsfix::client_config(&[]));
            let name = rustls::pki_types::ServerName::try_from("sim.test").unwrap();
            Box::new(c.connect(name, io).await.map_err(|e| format!("tls: {}", e))?)
        } else {
            io
        };
        io.write_all(&request_bytes(id, 40, 40)).await.map_err(|e| format!("write: {}", e.kind()))?;
        io.flush().await.map_err(|e| format!("flush: {}", e.kind()))?;
        let mut buf = Vec::new();
        let r = io.read_to_end(&mut buf).await;
        if let Err(e) = r {
            if buf.is_empty() {
                return Err(format!("read: {}", e.kind()));
            }
        }
        check_response(&buf, id, resp_len)
    };
    match tokio::time::timeout(Duration::from_secs(20), exchange).await {
        Ok(r) => r,
        Err(_) => Err("no complete response within 20 s".into()),
    }
}

async fn run_fault(t: &Target, f: &RFault) -> Result<(), String> {
    let e = |e: std::io::Error| format!("harness: fault client: {}", e);
    match f {
        RFault::CloseInBacklog { rst, bytes } => {
            let mut s = blocking_connect(t, None).map_err(e)?;
            let b = request_bytes(901, 0, 0);
            let _ = s.write_all(&b[..(*bytes).min(b.len() - 1)]);
            close(s, *rst);
        }
        RFault::Garbage => {
            let mut s = blocking_connect(t, None).map_err(e)?;
            let _ = s.write_all(b"\x00\xff\x13\x37 this is not a protocol\r\n\r\n\x16\x03");
            close(s, false);
        }
        RFault::CloseAfterAccept { rst, bytes } => {
            let mut s = blocking_connect(t, None).map_err(e)?;
            let_server_run().await;
            let b = request_bytes(901, 0, 0);
            let _ = s.write_all(&b[..(*bytes).min(b.len() - 1)]);
            let_server_run().await;
            close(s, *rst);
        }
        RFault::NonUtf8Peer | RFault::NamedPeer => {
            use std::os::unix::ffi::OsStrExt;
            let path = if matches!(f, RFault::NonUtf8Peer) {
                let n = SOCK_SEQ.fetch_add(1, std::sync::atomic::Ordering::Relaxed);
                let mut name = format!("c{}", n).into_bytes();
                name.extend_from_slice(b"\xff\xfe.s");
                sock_dir().join(std::ffi::OsStr::from_bytes(&name))
            } else {
                fresh_path("c")
            };
            let mut s = blocking_connect(t, Some(&path)).map_err(e)?;
            let _ = s.write_all(&request_bytes(905, 0, 0));
            let_server_run().await;
            close(s, false);
            let _ = std::fs::remove_file(&path);
        }
    }
    Ok(())
}

fn enumerated() -> Vec<RealCase> {
    let mut v = vec![];
    for kind in [RKind::Tcp, RKind::Unix] {
        for tls in [false, true] {
            let mut faults = vec![RFault::Garbage];
            for rst in [false, true] {
                if rst && kind == RKind::Unix {
                    continue;
                }
                for bytes in [0usize, 1, 30, 200] {
                    faults.push(RFault::CloseInBacklog { rst, bytes });
                    faults.push(RFault::CloseAfterAccept { rst, bytes });
                }
            }
            if kind == RKind::Unix {
                faults.push(RFault::NonUtf8Peer);
                faults.push(RFault::NamedPeer);
            }
            for f in faults {
                for proto in [ServerProto::Auto, ServerProto::H1] {
                    // the fault hits a server that has not been polled yet ...
                    v.push(RealCase { seed: 7, kind, tls, proto, events: vec![REvent::Fault(f.clone()), REvent::Good(1)] });
                    // ... and one that is idle in accept, with another fault queued behind it
                    v.push(RealCase {
                        seed: 7,
                        kind,
                        tls,
                        proto,
                        events: vec![REvent::Good(1), REvent::Fault(f.clone()), REvent::Fault(f.clone()), REvent::Good(2), REvent::Run, REvent::Good(3)],
                    });
                }
            }
        }
    }
    v
}

fn draw_fault(r: &mut Rng, kind: RKind) -> RFault {
    loop {
        let f = match r.below(6) {
            0 | 1 => RFault::CloseInBacklog { rst: r.bool(), bytes: *r.pick(&[0usize, 0, 1, 5, 30, 120, 200]) },
            2 => RFault::CloseAfterAccept { rst: r.bool(), bytes: *r.pick(&[0usize, 1, 5, 30, 120, 200]) },
            3 => RFault::Garbage,
            4 => RFault::NonUtf8Peer,
            _ => RFault::NamedPeer,
        };
        let ok = match &f {
            RFault::NonUtf8Peer | RFault::NamedPeer => kind == RKind::Unix,
            RFault::CloseInBacklog { rst, .. } | RFault::CloseAfterAccept { rst, .. } => !*rst || kind == RKind::Tcp,
            _ => true,
        };
        if ok {
            return f;
        }
    }
}

fn real_runtime() -> tokio::runtime::Runtime {
    tokio::runtime::Builder::new_current_thread().enable_all().build().expect("runtime")
}

impl Scenario for RealSockSim {
    type Case = RealCase;

    fn engine(&self) -> &'static str {
        "realsock"
    }

    fn info(&self) -> ScenarioInfo {
        ScenarioInfo {
            rule: "a real hyperdriver Server behind Acceptor::from(tokio TcpListener on 127.0.0.1:0) and Acceptor::from(tokio UnixListener), with and without TLS, auto / http1. The kernel's loopback and Unix sockets are real; the order of system calls is decided by the harness: the server is polled only when the driver awaits, faulty clients are blocking sockets driven inline. Enumerated: {close, reset (SO_LINGER=0)} x {0, 1, 30, 200 bytes of a valid request written first} x {while still in the listen backlog, after the server accepted}, garbage, a Unix peer bound to an ordinary / a non-UTF-8 path, each against a server not yet polled and against an idle one with a second fault queued behind the first, followed by well-behaved clients; random: sequences of up to 6 such faults, well-behaved clients and run steps. Oracle: the serving future is still pending at the end, every well-behaved client (and a final probe) gets its complete correct response within 20 s. distinct = (acceptor, tls, protocol, ordered event kinds).".into(),
            real: vec![
                "Server accept loop, Acceptor / AcceptorCore (TCP and Unix arms), stream::tcp::TcpStream / stream::unix::UnixStream (accept path, connection info), Braid (TCP and Unix arms), TlsAcceptor, auto::Builder, http1",
                "Linux loopback TCP and Unix-domain sockets (real kernel objects; system-call order decided by the harness)",
                "hyper http1 server, rustls / tokio-rustls",
            ],
            stub: vec!["faulty clients (blocking socket2 sockets) and well-behaved clients (tokio sockets, raw HTTP/1.1)"],
            assumptions: vec![
                "close/reset on loopback and Unix sockets is delivered synchronously by the kernel; if it were not, a backlog case degenerates into the corresponding after-accept case and is judged identically",
                "time is real in this mode; it only bounds how long a well-behaved client waits (20 s)",
            ],
        }
    }

    fn num_cases(&self, tier: Tier) -> (u64, u64) {
        (enumerated().len() as u64, if tier == Tier::Quick { 600 } else { 20_000 })
    }

    fn case(&self, index: u64, seed: u64, _tier: Tier) -> RealCase {
        let e = enumerated();
        if (index as usize) < e.len() {
            return e[index as usize].clone();
        }
        let mut r = Rng::keyed(seed, "realsock");
        let kind = *r.pick(&[RKind::Tcp, RKind::Unix]);
        let tls = r.chance(1, 3);
        let proto = *r.pick(&[ServerProto::Auto, ServerProto::H1]);
        let n = r.range(2, 6);
        let mut events = vec![];
        let mut id = 0;
        for _ in 0..n {
            events.push(match r.below(10) {
                0..=5 => REvent::Fault(draw_fault(&mut r, kind)),
                6..=7 => {
                    id += 1;
                    REvent::Good(id)
                }
                _ => REvent::Run,
            });
        }
        RealCase { seed, kind, tls, proto, events }
    }

    fn execute(&self, case: &RealCase) -> Outcome {
        simrt::install_panic_hook();
        let _ = simrt::take_panics();
        let mut out = Outcome::default();
        let rt = real_runtime();
        let local = tokio::task::LocalSet::new();
        let started = std::time::Instant::now();
        let result = std::panic::catch_unwind(std::panic::AssertUnwindSafe(|| {
            local.block_on(&rt, async {
                let net = Network::new(case.seed, NetPlan::plain());
                let log = Arc::new(Mutex::new(HandlerLog::default()));
                let mut plans = BTreeMap::new();
                for id in 1u32..=20 {
                    plans.insert(id, HandlerPlan { delay_ms: 0, resp_len: 500, resp_chunk: 100, resp_delay_ms: 0, fail: false, upgrade: false, redirect: None, resp_trailers: false });
                }
                let ctx = HandlerCtx { net: net.clone(), log: log.clone(), plans: Arc::new(plans), origin: "http://srv.test".into() };
                let tls_cfg = if case.tls { Some(tlsfix::server_config(tlsfix::CertKind::Good, &[])) } else { None };
                let exec = SimExecutor::default();
                use hyperdriver::server::conn::Acceptor;
                let mut unix_path = None;
                let (acc, target): (Acceptor, Target) = match case.kind {
                    RKind::Tcp => {
                        let l = std::net::TcpListener::bind("127.0.0.1:0").map_err(|e| format!("harness: bind: {}", e))?;
                        l.set_nonblocking(true).map_err(|e| format!("harness: {}", e))?;
                        let addr = l.local_addr().map_err(|e| format!("harness: {}", e))?;
                        let l = tokio::net::TcpListener::from_std(l).map_err(|e| format!("harness: {}", e))?;
                        (Acceptor::from(l), Target::Tcp(addr))
                    }
                    RKind::Unix => {
                        let p = fresh_path("l");
                        let l = tokio::net::UnixListener::bind(&p).map_err(|e| format!("harness: bind {:?}: {}", p, e))?;
                        unix_path = Some(p.clone());
                        (Acceptor::from(l), Target::Unix(p))
                    }
                };
                let server = tokio::task::spawn_local({
                    let f = super::srvfault::run_acceptor_server(acc, case.proto, tls_cfg, ctx, exec.clone(), false);
                    async move { f.await.map_err(|e| e.to_string()) }
                });
                let mut good: Vec<(u32, Result<(), String>)> = vec![];
                for ev in &case.events {
                    match ev {
                        REvent::Fault(f) => {
                            // a refused connect means the listener is gone: stop injecting, go to the verdict
                            if run_fault(&target, f).await.is_err() {
                                break;
                            }
                        }
                        REvent::Good(id) => good.push((*id, good_client(target.clone(), case.tls, *id, 500).await)),
                        REvent::Run => let_server_run().await,
                    }
                }
                let probe = good_client(target.clone(), case.tls, 20, 500).await;
                let server_state = if server.is_finished() {
                    Some(server.await.map_err(|e| e.to_string()).and_then(|r| r))
                } else {
                    server.abort();
                    None
                };
                if let Some(p) = unix_path {
                    let _ = std::fs::remove_file(p);
                }
                Ok::<_, String>((good, probe, server_state))
            })
        }));
        drop(local);
        drop(rt);
        for p in simrt::take_panics() {
            if p.in_harness() {
                out.harness_error = Some(format!("harness panic {} at {}", p.message, p.location()));
            } else {
                out.violations.push(Violation::new("C09", "panic", json!({"location": p.location()}), format!("panic: {} at {}", p.message, p.location())));
            }
        }
        let (good, probe, server_state) = match result {
            Ok(Ok(x)) => x,
            Ok(Err(e)) => {
                out.harness_error = Some(e);
                return out;
            }
            Err(_) => return out,
        };
        let faults: Vec<&RFault> = case.events.iter().filter_map(|e| if let REvent::Fault(f) = e { Some(f) } else { None }).collect();
        let mut names: Vec<&'static str> = faults.iter().map(|f| fault_name(f)).collect();
        for n in &names {
            out.count(&format!("fault.{}", n));
        }
        let mut sig = Digest::default();
        sig.push(case.kind as u64 * 8 + case.tls as u64 * 4 + case.proto as u64);
        for e in &case.events {
            match e {
                REvent::Fault(f) => sig.push_str(fault_name(f)),
                REvent::Good(_) => sig.push(1),
                REvent::Run => sig.push(2),
            }
        }
        out.abstract_sig = sig.0;
        let mut log = Digest::default();
        for (id, r) in &good {
            log.push(*id as u64 * 2 + r.is_ok() as u64);
        }
        log.push(probe.is_ok() as u64);
        log.push(server_state.is_some() as u64);
        out.log_digest = log.0;
        out.sim_ms = started.elapsed().as_millis() as u64;
        out.nontrivial = !faults.is_empty();
        out.faulty = !faults.is_empty();
        names.sort();
        names.dedup();
        let sigv = json!({"net": format!("{:?}", case.kind), "tls": case.tls});
        if let Some(st) = &server_state {
            out.violations.push(Violation::new(
                "C09",
                "server_stopped",
                sigv.clone(),
                format!("the serving future ended ({:?}) although only per-connection faults {:?} were injected", st, names),
            ));
        }
        for (id, r) in good.iter().chain(std::iter::once(&(20u32, probe.clone()))) {
            if let Err(e) = r {
                out.violations.push(Violation::new(
                    "C09",
                    if *id == 20 { "probe_not_served" } else { "bystander_disturbed" },
                    sigv.clone(),
                    format!("well-behaved client {} on its own connection was not served correctly: {} (faults on other connections: {:?})", id, e, names),
                ));
            } else {
                out.count("probe.well_behaved_client_served");
            }
        }
        out
    }

    fn shrink(&self, case: &RealCase) -> Vec<RealCase> {
        let mut v = vec![];
        for i in 0..case.events.len() {
            let mut c = case.clone();
            c.events.remove(i);
            v.push(c);
        }
        if case.tls {
            let mut c = case.clone();
            c.tls = false;
            v.push(c);
        }
        if case.proto != ServerProto::H1 {
            let mut c = case.clone();
            c.proto = ServerProto::H1;
            v.push(c);
        }
        for i in 0..case.events.len() {
            if let REvent::Fault(RFault::CloseInBacklog { rst, bytes }) = &case.events[i] {
                if *bytes > 0 {
                    let mut c = case.clone();
                    c.events[i] = REvent::Fault(RFault::CloseInBacklog { rst: *rst, bytes: 0 });
                    v.push(c);
                }
            }
        }
        v
    }
}
