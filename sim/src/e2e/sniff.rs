//! Engine B, mode `sniff` (C08): a hyperdriver server with automatic protocol detection is fed
//! byte streams cut into fragments at chosen positions; the protocol it serves and the bytes
//! it answers are compared with what the stream itself determines and with plain hyper.

use std::collections::BTreeMap;
use std::sync::Arc;
use std::time::Duration;

use http_body_util::BodyExt;
use parking_lot::Mutex;
use serde::{Deserialize, Serialize};
use serde_json::json;
use tokio::io::{AsyncReadExt, AsyncWriteExt};

use super::infra::*;
use crate::framework::{Outcome, Scenario, ScenarioInfo, Tier, Violation};
use crate::net::{Chunk, IoMode, SimStream};
use crate::rng::{Digest, Rng};
use crate::simrt;

const PREFACE: &[u8] = b"PRI * HTTP/2.0\r\n\r\nSM\r\n\r\n";

#[derive(Clone, Debug, Serialize, Deserialize, PartialEq)]
pub enum StreamKind {
    /// a complete, valid HTTP/1.1 request with a body longer than the sniff buffer
    H1 { method: String, body_len: usize },
    /// the HTTP/2 preface followed by a real hyper HTTP/2 client
    H2 { body_len: usize },
    /// the first `n` bytes of the preface, then end of stream
    PrefixEof { n: usize },
    /// the first `n` bytes of the preface, then bytes that differ from it, then end of stream
    PrefixDiverge { n: usize },
    /// an HTTP/1.1 request whose request line shares a prefix with the preface
    Lookalike { line: String },
    /// a complete HTTP/1.1 request after which the client closes its sending half while the
    /// handler is still working (10 s of virtual time, far beyond any injected delay): what an
    /// HTTP/1 server does then is configuration (hyper's half_close), and the handler behind the
    /// detector must be configured like the single-protocol one
    H1HalfClose { method: String, body_len: usize },
}

#[derive(Clone, Debug, Serialize, Deserialize)]
pub struct SniffCase {
    pub seed: u64,
    pub stream: StreamKind,
    /// positions (in bytes from the start of the stream) after which the client pauses until the
    /// server has consumed everything sent so far
    pub cuts: Vec<usize>,
    /// server-side read behaviour (chunking, Pending injection, virtual delays)
    pub read_mode: IoMode,
    pub gap_ms: u64,
    /// the server's side of the connection is a buffered transport: what the server writes only
    /// leaves when it flushes (a flush the detector's adapter must pass on)
    #[serde(default)]
    pub lazy_server: bool,
}

pub struct SniffSim;

fn h1_request(method: &str, id: u32, body_len: usize) -> Vec<u8> {
    let mut v = format!(
        "{} /r/{}/sniff?x=1 HTTP/1.1\r\nhost: a.test\r\nx-req-id: {}\r\nx-body-len: {}\r\ncontent-length: {}\r\nconnection: close\r\n\r\n",
        method, id, id, body_len, body_len
    )
    .into_bytes();
    v.extend(req_body(id, body_len));
    v
}

fn raw_bytes(kind: &StreamKind) -> Vec<u8> {
    match kind {
        StreamKind::H1 { method, body_len } => h1_request(method, 7, *body_len),
        StreamKind::H1HalfClose { method, body_len } => h1_request(method, 13, *body_len),
        StreamKind::H2 { .. } => PREFACE.to_vec(),
        StreamKind::PrefixEof { n } => PREFACE[..*n].to_vec(),
        StreamKind::PrefixDiverge { n } => {
            let mut v = PREFACE[..*n].to_vec();
            v.extend_from_slice(b"X /r/9/d HTTP/1.1\r\nhost: a.test\r\nx-req-id: 9\r\nx-body-len: 0\r\nconnection: close\r\n\r\n");
            v
        }
        StreamKind::Lookalike { line } => {
            // keep the id in the header consistent with the id in the path (if the line has one)
            let id_header = if line.contains("/r/11/") { "x-req-id: 11\r\n" } else { "" };
            format!("{}\r\nhost: a.test\r\n{}x-body-len: 0\r\nconnection: close\r\n\r\n", line, id_header).into_bytes()
        }
    }
}

/// Client stream wrapper that splits the first bytes at the configured cut points.
struct Fragmenter {
    inner: SimStream,
    cuts: Vec<usize>,
    sent: usize,
    gap_ms: u64,
    sleep: Option<std::pin::Pin<Box<tokio::time::Sleep>>>,
    waited_polls: u32,
    gap_done: bool,
    pub fragments_forced: Arc<Mutex<u64>>,
}

impl Fragmenter {
    fn next_cut(&self) -> Option<usize> {
        self.cuts.iter().copied().find(|c| *c > self.sent)
    }
}

impl tokio::io::AsyncRead for Fragmenter {
    fn poll_read(mut self: std::pin::Pin<&mut Self>, cx: &mut std::task::Context<'_>, buf: &mut tokio::io::ReadBuf<'_>) -> std::task::Poll<std::io::Result<()>> {
        std::pin::Pin::new(&mut self.inner).poll_read(cx, buf)
    }
}

impl tokio::io::AsyncWrite for Fragmenter {
    fn poll_write(mut self: std::pin::Pin<&mut Self>, cx: &mut std::task::Context<'_>, buf: &[u8]) -> std::task::Poll<std::io::Result<usize>> {
        use std::future::Future;
        use std::task::Poll;
        let this = &mut *self;
        // at a cut point: wait until the peer has taken everything (and an optional virtual gap)
        if this.cuts.contains(&this.sent) && this.sent > 0 {
            // re-check once per virtual millisecond (sleeping lets the clock, and with it the
            // server's delayed reads, make progress); give up after half a virtual second
            if let Some(s) = this.sleep.as_mut() {
                if s.as_mut().poll(cx).is_pending() {
                    return Poll::Pending;
                }
                this.sleep = None;
            }
            let drained = this.inner.tx.lock().buffered() == 0;
            if !drained && this.waited_polls < 500 {
                this.waited_polls += 1;
                let mut s = Box::pin(tokio::time::sleep(Duration::from_millis(1)));
                if s.as_mut().poll(cx).is_pending() {
                    this.sleep = Some(s);
                    return Poll::Pending;
                }
            }
            if this.gap_ms > 0 && !this.gap_done {
                this.gap_done = true;
                if this.sleep.is_none() {
                    this.sleep = Some(Box::pin(tokio::time::sleep(Duration::from_millis(this.gap_ms))));
                }
                if this.sleep.as_mut().unwrap().as_mut().poll(cx).is_pending() {
                    return Poll::Pending;
                }
                this.sleep = None;
            }
            // the cut has been honoured
            let s = this.sent;
            this.cuts.retain(|c| *c != s);
            this.waited_polls = 0;
            this.gap_done = false;
            *this.fragments_forced.lock() += 1;
        }
        let limit = match this.next_cut() {
            Some(c) => (c - this.sent).min(buf.len()),
            None => buf.len(),
        };
        match std::pin::Pin::new(&mut this.inner).poll_write(cx, &buf[..limit]) {
            Poll::Ready(Ok(n)) => {
                this.sent += n;
                Poll::Ready(Ok(n))
            }
            other => other,
        }
    }
    fn poll_flush(mut self: std::pin::Pin<&mut Self>, cx: &mut std::task::Context<'_>) -> std::task::Poll<std::io::Result<()>> {
        std::pin::Pin::new(&mut self.inner).poll_flush(cx)
    }
    fn poll_shutdown(mut self: std::pin::Pin<&mut Self>, cx: &mut std::task::Context<'_>) -> std::task::Poll<std::io::Result<()>> {
        std::pin::Pin::new(&mut self.inner).poll_shutdown(cx)
    }
}

#[derive(Debug, Default, Clone)]
struct Observed {
    /// raw response bytes (HTTP/1) or decoded response (HTTP/2)
    raw: Vec<u8>,
    h2: Option<(u16, Vec<(String, String)>, Vec<u8>)>,
    error: Option<String>,
    /// the exchange was given up after 120 s of virtual time in which the server neither read,
    /// answered nor closed
    hung: bool,
}

/// Drive one raw byte stream against a server end; returns what the client saw.
async fn raw_exchange(stream: SimStream, bytes: Vec<u8>, cuts: Vec<usize>, gap_ms: u64, forced: Arc<Mutex<u64>>, half_close: bool) -> Observed {
    let mut f = Fragmenter { inner: stream, cuts, sent: 0, gap_ms, sleep: None, waited_polls: 0, gap_done: false, fragments_forced: forced };
    let mut obs = Observed::default();
    // (bounded: a server that stops reading leaves the writer blocked on a full pipe, and a run in
    // which everybody waits without a timer never ends)
    match tokio::time::timeout(Duration::from_secs(120), f.write_all(&bytes)).await {
        Ok(Ok(())) => {}
        Ok(Err(e)) => obs.error = Some(format!("write: {}", e.kind())),
        Err(_) => {
            obs.error = Some("server stopped reading: the request could not be written within 120 s".into());
            obs.hung = true;
            return obs;
        }
    }
    // hyper aborts an exchange when the client's write half closes before the response is out
    // (http1 half_close is off by default), so only streams that *end* early are half-closed
    if half_close {
        let _ = f.shutdown().await;
    }
    let mut buf = Vec::new();
    match tokio::time::timeout(Duration::from_secs(120), f.read_to_end(&mut buf)).await {
        Ok(Ok(_)) => {}
        Ok(Err(e)) => obs.error = Some(format!("read: {}", e.kind())),
        Err(_) => {
            obs.error = Some("server neither answered nor closed within 120 s".into());
            obs.hung = true;
        }
    }
    obs.raw = buf;
    obs
}

async fn h2_exchange(stream: SimStream, cuts: Vec<usize>, gap_ms: u64, body_len: usize, forced: Arc<Mutex<u64>>) -> Observed {
    let f = Fragmenter { inner: stream, cuts, sent: 0, gap_ms, sleep: None, waited_polls: 0, gap_done: false, fragments_forced: forced };
    let mut obs = Observed::default();
    let io = hyperdriver::bridge::io::TokioIo::new(f);
    let hs = hyper::client::conn::http2::handshake::<_, _, ChunkBody>(hyperdriver::bridge::rt::TokioExecutor::new(), io).await;
    let (mut sender, conn) = match hs {
        Ok(x) => x,
        Err(e) => {
            obs.error = Some(format!("h2 handshake: {}", e));
            return obs;
        }
    };
    let driver = tokio::spawn(async move {
        let _ = conn.await;
    });
    let req = http::Request::builder()
        .method("POST")
        .uri("http://a.test/r/5/h2sniff")
        .version(http::Version::HTTP_2)
        .header("x-req-id", "5")
        .header("x-body-len", body_len.to_string())
        .body(ChunkBody::new(req_body(5, body_len), 100, 0))
        .unwrap();
    let r = tokio::time::timeout(Duration::from_secs(120), sender.send_request(req)).await;
    match r {
        Err(_) => obs.error = Some("no HTTP/2 response within 120 s".into()),
        Ok(Err(e)) => obs.error = Some(format!("h2 request: {}", e)),
        Ok(Ok(resp)) => {
            let status = resp.status().as_u16();
            let mut headers: Vec<(String, String)> = resp
                .headers()
                .iter()
                .map(|(k, v)| (k.as_str().to_string(), v.to_str().unwrap_or("").to_string()))
                .filter(|(k, _)| k != "x-conn" && k != "date")
                .collect();
            headers.sort();
            match resp.into_body().collect().await {
                Ok(b) => obs.h2 = Some((status, headers, b.to_bytes().to_vec())),
                Err(e) => obs.error = Some(format!("h2 body: {}", e)),
            }
        }
    }
    drop(sender);
    driver.abort();
    obs
}

fn enumerated(tier: Tier) -> Vec<SniffCase> {
    let kinds: Vec<StreamKind> = vec![
        StreamKind::H1 { method: "POST".into(), body_len: 40 },
        StreamKind::H1 { method: "PROPFIND".into(), body_len: 30 },
        StreamKind::H1 { method: "PATCH".into(), body_len: 25 },
        StreamKind::H2 { body_len: 60 },
        StreamKind::H1HalfClose { method: "POST".into(), body_len: 40 },
        StreamKind::Lookalike { line: "PRI * HTTP/1.1".into() },
        StreamKind::Lookalike { line: "PRI * HTTP/2.0".into() },
        StreamKind::Lookalike { line: "P /r/11/p HTTP/1.1".into() },
        StreamKind::PrefixDiverge { n: 3 },
        StreamKind::PrefixDiverge { n: 14 },
        StreamKind::PrefixDiverge { n: 23 },
    ];
    let mut v = vec![];
    let plain = IoMode::plain();
    for k in &kinds {
        // unfragmented, byte-at-a-time, every single cut, (thorough: every pair of cuts)
        v.push(SniffCase { seed: 1, stream: k.clone(), cuts: vec![], read_mode: plain.clone(), gap_ms: 0, lazy_server: false });
        v.push(SniffCase { seed: 1, stream: k.clone(), cuts: (1..32).collect(), read_mode: plain.clone(), gap_ms: 0, lazy_server: false });
        for c in 1..32 {
            v.push(SniffCase { seed: 1, stream: k.clone(), cuts: vec![c], read_mode: plain.clone(), gap_ms: 0, lazy_server: false });
        }
        if tier == Tier::Thorough || matches!(k, StreamKind::H2 { .. }) {
            for a in 1..32 {
                for b in (a + 1)..32 {
                    v.push(SniffCase { seed: 1, stream: k.clone(), cuts: vec![a, b], read_mode: plain.clone(), gap_ms: 0, lazy_server: false });
                }
            }
        }
    }
    // the same streams over a buffered server-side transport
    for k in &kinds {
        v.push(SniffCase { seed: 1, stream: k.clone(), cuts: vec![], read_mode: plain.clone(), gap_ms: 0, lazy_server: true });
        v.push(SniffCase { seed: 1, stream: k.clone(), cuts: (1..32).collect(), read_mode: plain.clone(), gap_ms: 0, lazy_server: true });
    }
    for n in 0..24 {
        v.push(SniffCase { seed: 1, stream: StreamKind::PrefixEof { n }, cuts: vec![], read_mode: plain.clone(), gap_ms: 0, lazy_server: false });
        v.push(SniffCase { seed: 1, stream: StreamKind::PrefixEof { n }, cuts: (1..24).collect(), read_mode: plain.clone(), gap_ms: 0, lazy_server: false });
    }
    v
}

impl SniffSim {
    fn viol(out: &mut Outcome, rule: &str, case: &SniffCase, detail: String) {
        let kind = match &case.stream {
            StreamKind::H1 { .. } => "h1",
            StreamKind::H1HalfClose { .. } => "h1_half_close",
            StreamKind::H2 { .. } => "h2",
            StreamKind::PrefixEof { .. } => "prefix_eof",
            StreamKind::PrefixDiverge { .. } => "prefix_diverge",
            StreamKind::Lookalike { .. } => "lookalike",
        };
        out.violations.push(Violation::new("C08", rule, json!({"stream": kind}), detail));
    }
}

impl Scenario for SniffSim {
    type Case = SniffCase;

    fn engine(&self) -> &'static str {
        "sniff"
    }

    fn info(&self) -> ScenarioInfo {
        ScenarioInfo {
            rule: "byte streams (valid HTTP/1.1 requests with bodies > 24 bytes, the HTTP/2 preface + a real hyper HTTP/2 client, strict prefixes of the preface then EOF or diverging bytes, request lines sharing a prefix with the preface) x fragmentation of the first 32 bytes: none, byte-at-a-time, every single cut position 1..31 (all streams), every pair of cut positions (HTTP/2 always, all streams in the thorough tier) - enumerated; plus seeded random cut sets with server-side short reads, Pending injection, virtual delays and gaps between fragments. The client waits at each cut until the server has consumed what was sent, so the fragmentation reaches ReadVersion's reads. Oracle: version seen by the handler = f(bytes); response identical to the same bytes sent unfragmented to plain hyper http1 / http2 with the same handler. Non-trivial: at least one cut inside the first 24 bytes honoured; distinct = (stream kind, cut set, read-mode class).".into(),
            real: vec![
                "server::conn::auto::{Builder, UpgradableConnection, ReadVersion}, rewind::Rewind, server::conn::connecting::Connecting, bridge::io::TokioIo",
                "Server accept loop + ConnectionDriver (the auto server runs as a real hyperdriver Server)",
                "hyper http1/http2 server connections behind the detector; hyper http2 client for the preface case",
            ],
            stub: vec!["network (SimNet)", "client for raw streams (harness writes the bytes)", "reference: plain hyper http1 / http2 server connection with the same handler"],
            assumptions: vec!["hyper's Date header is switched off on both the tested and the reference server (real wall clock)"],
        }
    }

    fn num_cases(&self, tier: Tier) -> (u64, u64) {
        (enumerated(tier).len() as u64, if tier == Tier::Quick { 1500 } else { 100_000 })
    }

    fn case(&self, index: u64, seed: u64, tier: Tier) -> SniffCase {
        let e = enumerated(tier);
        if (index as usize) < e.len() {
            return e[index as usize].clone();
        }
        let mut r = Rng::keyed(seed, "sniff");
        let stream = match r.below(11) {
            10 => StreamKind::H1HalfClose { method: r.pick(&["GET", "POST", "PRIX"]).to_string(), body_len: r.range(0, 80) as usize },
            0..=2 => StreamKind::H1 { method: r.pick(&["GET", "POST", "PUT", "PRIX", "PATCH", "PROPFIND"]).to_string(), body_len: r.range(0, 80) as usize },
            3..=5 => StreamKind::H2 { body_len: r.range(0, 300) as usize },
            6 => StreamKind::PrefixEof { n: r.range(0, 23) as usize },
            7 => StreamKind::PrefixDiverge { n: r.range(0, 23) as usize },
            _ => StreamKind::Lookalike { line: r.pick(&["PRI * HTTP/1.1", "PRI * HTTP/2.0", "PRI /r/11/x HTTP/1.1", "P * HTTP/1.1", "PR /r/11/y HTTP/1.1"]).to_string() },
        };
        let n_cuts = r.range(0, 6) as usize;
        let mut cuts: Vec<usize> = (0..n_cuts).map(|_| r.range(1, 40) as usize).collect();
        cuts.sort();
        cuts.dedup();
        let mut read_mode = IoMode::draw(&mut r);
        read_mode.cap = *r.pick(&[1usize, 2, 7, 64, 1024, 65536]);
        if matches!(stream, StreamKind::H2 { .. }) {
            read_mode.cap = read_mode.cap.max(512);
        }
        SniffCase { seed, stream, cuts, read_mode, gap_ms: *r.pick(&[0u64, 0, 1, 10]), lazy_server: Rng::keyed(seed, "sniff/lazy").chance(1, 3) }
    }

    fn execute(&self, case: &SniffCase) -> Outcome {
        simrt::install_panic_hook();
        let _ = simrt::take_panics();
        let mut out = Outcome::default();
        let rt = simrt::runtime();
        let local = tokio::task::LocalSet::new();
        let forced = Arc::new(Mutex::new(0u64));
        let forced2 = forced.clone();
        let result = std::panic::catch_unwind(std::panic::AssertUnwindSafe(|| {
            local.block_on(&rt, async {
                crate::net::reset_ops();
                let pump = tokio::task::spawn_local(crate::net::time_pump());
                let _g = super::AbortOnDrop(pump);
                let net = Network::new(case.seed, NetPlan::plain());
                let log = Arc::new(Mutex::new(HandlerLog::default()));
                let reflog = Arc::new(Mutex::new(HandlerLog::default()));
                let mut plans = BTreeMap::new();
                for id in [5u32, 7, 9, 11, 13] {
                    plans.insert(id, HandlerPlan { delay_ms: if id == 13 { 10_000 } else { 0 }, resp_len: 70, resp_chunk: 33, resp_delay_ms: 0, fail: false, upgrade: false, redirect: None, resp_trailers: false });
                }
                let plans = Arc::new(plans);
                // ---- system under test: a real hyperdriver server with protocol detection
                let acc = net.listen("http://a.test");
                let ctx = HandlerCtx { net: net.clone(), log: log.clone(), plans: plans.clone(), origin: "http://a.test".into() };
                let server = tokio::task::spawn_local(run_server(acc, ServerProto::Auto, None, ctx, SimExecutor::default(), None));
                // the server reads with the configured mode (client -> server direction)
                let mut server_writes = IoMode::plain();
                server_writes.lazy_flush = case.lazy_server;
                let c = net.raw_connect("http://a.test", Some((case.read_mode.clone(), server_writes))).expect("connect");
                let sut = match &case.stream {
                    StreamKind::H2 { body_len } => match tokio::time::timeout(Duration::from_secs(600), h2_exchange(c, case.cuts.clone(), case.gap_ms, *body_len, forced2.clone())).await {
                        Ok(o) => o,
                        Err(_) => Observed { error: Some("HTTP/2 exchange made no progress for 600 s".into()), hung: true, ..Default::default() },
                    },
                    k => raw_exchange(c, raw_bytes(k), case.cuts.clone(), case.gap_ms, forced2.clone(), matches!(k, StreamKind::PrefixEof { .. } | StreamKind::H1HalfClose { .. })).await,
                };
                // ---- reference: the same bytes, unfragmented, against plain hyper
                let rctx = HandlerCtx { net: net.clone(), log: reflog.clone(), plans: plans.clone(), origin: "http://a.test".into() };
                let (rc, rs) = crate::net::pair(case.seed, 0, IoMode::plain(), IoMode::plain(), None, None);
                let svc = hyper::service::service_fn(move |req: http::Request<hyper::body::Incoming>| {
                    let ctx = rctx.clone();
                    async move { handle(ctx, 0, req.map(hyperdriver::Body::from)).await }
                });
                let is_h2 = matches!(case.stream, StreamKind::H2 { .. });
                let ref_server = tokio::task::spawn_local(async move {
                    let io = hyperdriver::bridge::io::TokioIo::new(rs);
                    if is_h2 {
                        let mut b = hyper::server::conn::http2::Builder::new(hyperdriver::bridge::rt::TokioExecutor::new());
                        b.auto_date_header(false);
                        let _ = b.serve_connection(io, svc).await;
                    } else {
                        let mut b = hyper::server::conn::http1::Builder::new();
                        b.auto_date_header(false);
                        let _ = b.serve_connection(io, svc).with_upgrades().await;
                    }
                });
                let nobody = Arc::new(Mutex::new(0u64));
                let reference = match &case.stream {
                    StreamKind::H2 { body_len } => h2_exchange(rc, vec![], 0, *body_len, nobody).await,
                    k => raw_exchange(rc, raw_bytes(k), vec![], 0, nobody, matches!(k, StreamKind::PrefixEof { .. } | StreamKind::H1HalfClose { .. })).await,
                };
                ref_server.abort();
                let server_ended = server.is_finished();
                server.abort();
                let seen = log.lock().seen.clone();
                let refseen = reflog.lock().seen.clone();
                (sut, reference, seen, refseen, server_ended)
            })
        }));
        drop(local);
        drop(rt);
        if let Some(m) = crate::net::take_spin() {
            out.violations.push(Violation::new("C08", "spins_after_end_of_stream", json!({"stream": "any"}), format!("a reader in the library keeps reading a closed connection in a loop without yielding: {}", m)));
        }
        for p in simrt::take_panics() {
            if p.in_harness() {
                out.harness_error = Some(format!("harness panic {} at {}", p.message, p.location()));
            } else {
                Self::viol(&mut out, "panic", case, format!("panic: {} at {}", p.message, p.location()));
            }
        }
        let Ok((sut, reference, seen, refseen, server_ended)) = result else {
            return out;
        };
        if std::env::var("VERIF_TRACE").is_ok() {
            eprintln!("sut: err={:?} raw={:?} h2={:?}", sut.error, String::from_utf8_lossy(&sut.raw), sut.h2.as_ref().map(|h| (h.0, h.2.len())));
            eprintln!("ref: err={:?} raw={:?} h2={:?}", reference.error, String::from_utf8_lossy(&reference.raw), reference.h2.as_ref().map(|h| (h.0, h.2.len())));
            eprintln!("seen {:?}\nrefseen {:?}", seen, refseen);
        }
        let forced = *forced.lock();
        let mut log = Digest::default();
        log.push(sut.raw.len() as u64);
        log.push(sut.h2.as_ref().map(|h| h.0 as u64).unwrap_or(0));
        log.push(seen.len() as u64);
        log.push(forced);
        out.log_digest = log.0;
        let mut sig = Digest::default();
        sig.push_str(&format!("{:?}", case.stream));
        for c in &case.cuts {
            sig.push(*c as u64);
        }
        sig.push(case.read_mode.chunk as u64 * 4 + (case.read_mode.pending_pct > 0) as u64 * 2 + (case.read_mode.delay_pct > 0) as u64 + 64 * case.lazy_server as u64);
        if case.lazy_server {
            out.count("probe.buffered_server_side_transport");
        }
        out.abstract_sig = sig.0;
        let inside = case.cuts.iter().filter(|c| **c < 24).count();
        out.nontrivial = inside > 0 && forced > 0;
        out.faulty = !case.read_mode.is_plain();
        out.add("probe.fragments_forced", forced);
        if case.read_mode.chunk == Chunk::One {
            out.count("fault.short_read");
        }
        if case.read_mode.pending_pct > 0 {
            out.count("fault.pending_inject");
        }
        if server_ended {
            Self::viol(&mut out, "server_stopped", case, "the serving future ended while handling one connection".into());
        }

        let starts_with_preface = raw_bytes(&case.stream).starts_with(PREFACE);
        // (1) protocol seen by the handler is a function of the bytes
        for s in &seen {
            let expect = if starts_with_preface { http::Version::HTTP_2 } else { http::Version::HTTP_11 };
            if s.version != expect && !(s.version == http::Version::HTTP_10 && !starts_with_preface) {
                Self::viol(
                    &mut out,
                    "wrong_protocol",
                    case,
                    format!("stream {:?} cut at {:?} was served as {:?}, expected {:?}", case.stream, case.cuts, s.version, expect),
                );
            }
            if let Some(p) = &s.problem {
                Self::viol(&mut out, "bytes_altered", case, format!("handler behind the detector saw a corrupted request: {}", p));
            }
        }
        // (2) same answer as plain hyper on the unfragmented stream
        match &case.stream {
            StreamKind::H2 { .. } => {
                out.count("probe.h2_preface_stream");
                match (&sut.h2, &reference.h2) {
                    (Some(a), Some(b)) => {
                        if a != b {
                            Self::viol(&mut out, "response_differs", case, format!("HTTP/2 response differs from plain hyper: status {} vs {}, {} vs {} body bytes", a.0, b.0, a.2.len(), b.2.len()));
                        }
                    }
                    (None, Some(_)) => Self::viol(
                        &mut out,
                        "h2_not_served",
                        case,
                        format!("HTTP/2 client whose preface was cut at {:?} was not served: {:?} (plain hyper http2 answers it)", case.cuts, sut.error),
                    ),
                    (_, None) => out.harness_error = Some(format!("reference http2 exchange failed: {:?}", reference.error)),
                }
            }
            _ => {
                if sut.hung && !reference.hung {
                    Self::viol(&mut out, "connection_hangs", case, format!("stream {:?} cut at {:?}: {} (plain hyper answers or closes)", case.stream, case.cuts, sut.error.clone().unwrap_or_default()));
                }
                if sut.raw != reference.raw {
                    let a = String::from_utf8_lossy(&sut.raw[..sut.raw.len().min(60)]).to_string();
                    let b = String::from_utf8_lossy(&reference.raw[..reference.raw.len().min(60)]).to_string();
                    Self::viol(
                        &mut out,
                        "response_differs",
                        case,
                        format!("response to {:?} cut at {:?} differs from plain hyper http1: {} bytes {:?}... vs {} bytes {:?}...", case.stream, case.cuts, sut.raw.len(), a, reference.raw.len(), b),
                    );
                }
                // (when the client half-closes during the exchange, whether the handler had been
                // started before the server noticed is timing, and invisible to the client)
                if seen.len() != refseen.len() && !matches!(case.stream, StreamKind::H1HalfClose { .. }) {
                    Self::viol(&mut out, "handler_calls_differ", case, format!("handler invoked {} times behind the detector, {} times behind plain hyper", seen.len(), refseen.len()));
                }
            }
        }
        out
    }

    fn shrink(&self, case: &SniffCase) -> Vec<SniffCase> {
        let mut v = vec![];
        for i in 0..case.cuts.len() {
            let mut c = case.clone();
            c.cuts.remove(i);
            v.push(c);
        }
        if !case.read_mode.is_plain() {
            let mut c = case.clone();
            c.read_mode = IoMode::plain();
            v.push(c);
        }
        if case.gap_ms > 0 {
            let mut c = case.clone();
            c.gap_ms = 0;
            v.push(c);
        }
        match &case.stream {
            StreamKind::H1 { method, body_len } if *body_len > 0 => {
                let mut c = case.clone();
                c.stream = StreamKind::H1 { method: method.clone(), body_len: 0 };
                v.push(c);
            }
            StreamKind::H2 { body_len } if *body_len > 0 => {
                let mut c = case.clone();
                c.stream = StreamKind::H2 { body_len: 0 };
                v.push(c);
            }
            _ => {}
        }
        v
    }
}
