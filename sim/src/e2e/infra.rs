//! Shared infrastructure of engine B: the simulated network between hyperdriver's real client
//! stack and real servers, the request handler, and streaming bodies.

use std::collections::{BTreeMap, VecDeque};
use std::convert::Infallible;
use std::future::Future;
use std::io;
use std::pin::Pin;
use std::sync::Arc;
use std::task::{Context, Poll};
use std::time::Duration;

use bytes::Bytes;
use http_body::Frame;
use http_body_util::BodyExt;
use parking_lot::Mutex;
use serde::{Deserialize, Serialize};
use tokio::sync::mpsc;

use crate::net::{self, FaultKind, IoMode, PipeFault, PipeRef, SimStream};
use crate::rng::Rng;

pub type BoxError = Box<dyn std::error::Error + Send + Sync>;

// ------------------------------------------------------------------------------------------
// payload patterns

pub fn req_byte(id: u32, i: u64) -> u8 {
    (crate::rng::splitmix64(((id as u64) << 32) ^ i ^ 0xA5A5) & 0xff) as u8
}
pub fn resp_byte(id: u32, i: u64) -> u8 {
    (crate::rng::splitmix64(((id as u64) << 32) ^ i ^ 0x5A5A_0000) & 0xff) as u8
}
pub fn req_body(id: u32, len: usize) -> Vec<u8> {
    (0..len as u64).map(|i| req_byte(id, i)).collect()
}
pub fn resp_body(id: u32, len: usize) -> Vec<u8> {
    (0..len as u64).map(|i| resp_byte(id, i)).collect()
}

// ------------------------------------------------------------------------------------------
// streaming body with virtual delays between chunks

pub struct ChunkBody {
    chunks: VecDeque<Bytes>,
    delay: Duration,
    sleep: Option<Pin<Box<tokio::time::Sleep>>>,
    first: bool,
    /// shared counter of bytes handed to hyper so far (stage detection)
    pub progress: Option<Arc<Mutex<u64>>>,
    /// a trailers frame that follows the last data frame
    pub trailers: Option<http::HeaderMap>,
}

/// the trailer fields that belong to message `id` (request and response side differ)
pub fn trailers_for(id: u32, response: bool) -> http::HeaderMap {
    let mut h = http::HeaderMap::new();
    h.insert("x-trail-id", id.to_string().parse().unwrap());
    h.insert("x-trail-sum", format!("{:x}", crate::rng::splitmix64(id as u64 * 2 + response as u64)).parse().unwrap());
    h
}

/// what a receiver saw of them: `None` if no trailers frame arrived
pub fn trailers_digest(h: &http::HeaderMap) -> String {
    let g = |k: &str| h.get(k).and_then(|v| v.to_str().ok()).unwrap_or("-").to_string();
    format!("{}/{}/{}", g("x-trail-id"), g("x-trail-sum"), h.len())
}

impl Default for ChunkBody {
    fn default() -> Self {
        ChunkBody { chunks: VecDeque::new(), delay: Duration::ZERO, sleep: None, first: true, progress: None, trailers: None }
    }
}

impl ChunkBody {
    pub fn new(data: Vec<u8>, chunk: usize, delay_ms: u64) -> Self {
        let mut chunks = VecDeque::new();
        let data = Bytes::from(data);
        let chunk = chunk.max(1);
        let mut off = 0;
        while off < data.len() {
            let end = (off + chunk).min(data.len());
            chunks.push_back(data.slice(off..end));
            off = end;
        }
        ChunkBody { chunks, delay: Duration::from_millis(delay_ms), sleep: None, first: true, progress: None, trailers: None }
    }
}

impl http_body::Body for ChunkBody {
    type Data = Bytes;
    type Error = Infallible;

    fn poll_frame(mut self: Pin<&mut Self>, cx: &mut Context<'_>) -> Poll<Option<Result<Frame<Bytes>, Infallible>>> {
        if self.chunks.is_empty() {
            return Poll::Ready(self.trailers.take().map(|t| Ok(Frame::trailers(t))));
        }
        if !self.delay.is_zero() && !self.first {
            if self.sleep.is_none() {
                let d = self.delay;
                self.sleep = Some(Box::pin(tokio::time::sleep(d)));
            }
            if self.sleep.as_mut().unwrap().as_mut().poll(cx).is_pending() {
                return Poll::Pending;
            }
            self.sleep = None;
        }
        self.first = false;
        let c = self.chunks.pop_front().unwrap();
        if let Some(p) = &self.progress {
            *p.lock() += c.len() as u64;
        }
        Poll::Ready(Some(Ok(Frame::data(c))))
    }

    fn is_end_stream(&self) -> bool {
        self.chunks.is_empty() && self.trailers.is_none()
    }

    fn size_hint(&self) -> http_body::SizeHint {
        let n: u64 = self.chunks.iter().map(|c| c.len() as u64).sum();
        http_body::SizeHint::with_exact(n)
    }
}

// ------------------------------------------------------------------------------------------
// network

#[derive(Clone, Copy, Debug, Serialize, Deserialize, PartialEq, Eq)]
pub enum Dir {
    C2S,
    S2C,
}

#[derive(Clone, Debug, Serialize, Deserialize)]
pub struct ConnFault {
    /// ordinal of the connection (in dial order)
    pub conn: u32,
    pub dir: Dir,
    pub kind: FaultKind,
    pub at: u64,
}

#[derive(Clone, Copy, Debug, Serialize, Deserialize, PartialEq, Eq)]
pub enum DialFate {
    Ok,
    Refuse,
    Hang,
}

#[derive(Clone, Debug, Serialize, Deserialize)]
pub struct NetPlan {
    /// draw chunking / Pending / delays / capacities per connection from the seed
    pub io_faulty: bool,
    pub connect_latency_ms: Vec<u64>,
    pub faults: Vec<ConnFault>,
    /// (connection ordinal, fate) for dials that do not succeed
    pub dial_fates: Vec<(u32, DialFate)>,
}

impl NetPlan {
    pub fn plain() -> Self {
        NetPlan { io_faulty: false, connect_latency_ms: vec![0], faults: vec![], dial_fates: vec![] }
    }
}

#[derive(Clone)]
pub struct ConnRec {
    pub id: u32,
    pub origin: String,
    pub dialed_by: Option<u32>,
    pub dial_start_ms: u64,
    pub established_ms: Option<u64>,
    pub fate: DialFate,
    pub c2s: Option<PipeRef>,
    pub s2c: Option<PipeRef>,
    pub version_requested: http::Version,
}

pub struct NetInner {
    pub seed: u64,
    pub plan: NetPlan,
    pub listeners: BTreeMap<String, mpsc::UnboundedSender<SimStream>>,
    pub conns: Vec<ConnRec>,
    pub t0: tokio::time::Instant,
    pub log: crate::rng::Digest,
    pub refused_no_listener: u64,
}

#[derive(Clone)]
pub struct Network {
    pub inner: Arc<Mutex<NetInner>>,
}

pub fn origin_key(uri: &http::Uri) -> String {
    format!(
        "{}://{}",
        uri.scheme_str().unwrap_or("").to_ascii_lowercase(),
        uri.authority().map(|a| a.as_str().to_ascii_lowercase()).unwrap_or_default()
    )
}

#[derive(Clone, Copy, Debug, PartialEq, Eq, Hash)]
pub struct ReqTag(pub u32);

impl Network {
    pub fn new(seed: u64, plan: NetPlan) -> Self {
        Network {
            inner: Arc::new(Mutex::new(NetInner {
                seed,
                plan,
                listeners: BTreeMap::new(),
                conns: vec![],
                t0: tokio::time::Instant::now(),
                log: crate::rng::Digest::default(),
                refused_no_listener: 0,
            })),
        }
    }

    pub fn now_ms(&self) -> u64 {
        let t0 = self.inner.lock().t0;
        tokio::time::Instant::now().duration_since(t0).as_millis() as u64
    }

    pub fn listen(&self, origin: &str) -> SimAcceptor {
        let (tx, rx) = mpsc::unbounded_channel();
        let uri: http::Uri = origin.parse().expect("origin uri");
        self.inner.lock().listeners.insert(origin_key(&uri), tx);
        SimAcceptor { rx }
    }

    /// Drop the listener of an origin (the acceptor then reports the loss of the listener).
    pub fn close_listener(&self, origin: &str) {
        let uri: http::Uri = origin.parse().expect("origin uri");
        self.inner.lock().listeners.remove(&origin_key(&uri));
    }

    pub fn transport(&self) -> SimTransportB {
        SimTransportB { net: self.clone(), fixed: None }
    }

    /// Open a raw connection to an origin (for hand-written peers).
    pub fn raw_connect(&self, origin: &str, mode: Option<(IoMode, IoMode)>) -> Result<SimStream, io::Error> {
        let uri: http::Uri = origin.parse().expect("origin uri");
        let key = origin_key(&uri);
        let mut n = self.inner.lock();
        let id = n.conns.len() as u32;
        let now = tokio::time::Instant::now().duration_since(n.t0).as_millis() as u64;
        let (m1, m2) = mode.unwrap_or_else(|| n.modes_for(id));
        let (f1, f2) = n.faults_for(id);
        let (c, s) = net::pair(n.seed, id, m1, m2, f1, f2);
        n.conns.push(ConnRec {
            id,
            origin: key.clone(),
            dialed_by: None,
            dial_start_ms: now,
            established_ms: Some(now),
            fate: DialFate::Ok,
            c2s: Some(c.tx.clone()),
            s2c: Some(c.rx.clone()),
            version_requested: http::Version::HTTP_11,
        });
        match n.listeners.get(&key) {
            Some(tx) if tx.send(s).is_ok() => Ok(c),
            _ => Err(io::ErrorKind::ConnectionRefused.into()),
        }
    }
}

impl NetInner {
    fn modes_for(&self, id: u32) -> (IoMode, IoMode) {
        if self.plan.io_faulty {
            let mut r = Rng::keyed(self.seed, &format!("net/mode/{}", id));
            let m = (IoMode::draw_roomy(&mut r), IoMode::draw_roomy(&mut r));
            if std::env::var("VERIF_TRACE").is_ok() {
                eprintln!("conn {} modes c2s {:?} s2c {:?}", id, m.0, m.1);
            }
            m
        } else {
            (IoMode::plain(), IoMode::plain())
        }
    }
    fn faults_for(&self, id: u32) -> (Option<PipeFault>, Option<PipeFault>) {
        let mut c2s = None;
        let mut s2c = None;
        for f in &self.plan.faults {
            if f.conn == id {
                let pf = PipeFault { kind: f.kind, at: f.at };
                match f.dir {
                    Dir::C2S => c2s = Some(pf),
                    Dir::S2C => s2c = Some(pf),
                }
            }
        }
        (c2s, s2c)
    }
}

#[derive(Debug, thiserror::Error)]
pub enum SimDialError {
    #[error("connection refused (simulated)")]
    Refused,
    #[error("no listener for {0}")]
    NoListener(String),
}

#[derive(Clone)]
pub struct SimTransportB {
    pub net: Network,
    /// connect here whatever the request URI says (a URI-agnostic transport, like a Unix socket
    /// or duplex transport would be)
    pub fixed: Option<String>,
}

impl tower::Service<http::request::Parts> for SimTransportB {
    type Response = SimStream;
    type Error = SimDialError;
    type Future = Pin<Box<dyn Future<Output = Result<SimStream, SimDialError>> + Send>>;

    fn poll_ready(&mut self, _cx: &mut Context<'_>) -> Poll<Result<(), Self::Error>> {
        Poll::Ready(Ok(()))
    }

    fn call(&mut self, parts: http::request::Parts) -> Self::Future {
        let net = self.net.clone();
        let key = match &self.fixed {
            Some(o) => origin_key(&o.parse::<http::Uri>().expect("fixed origin")),
            None => origin_key(&parts.uri),
        };
        let tag = parts.extensions.get::<ReqTag>().map(|t| t.0);
        let (id, latency, fate) = {
            let mut n = net.inner.lock();
            let id = n.conns.len() as u32;
            let lat = if n.plan.connect_latency_ms.is_empty() {
                0
            } else {
                n.plan.connect_latency_ms[id as usize % n.plan.connect_latency_ms.len()]
            };
            let fate = n.plan.dial_fates.iter().find(|(c, _)| *c == id).map(|(_, f)| *f).unwrap_or(DialFate::Ok);
            let now = tokio::time::Instant::now().duration_since(n.t0).as_millis() as u64;
            n.conns.push(ConnRec {
                id,
                origin: key.clone(),
                dialed_by: tag,
                dial_start_ms: now,
                established_ms: None,
                fate,
                c2s: None,
                s2c: None,
                version_requested: parts.version,
            });
            n.log.push(0xD1A1);
            n.log.push(id as u64);
            n.log.push(now);
            (id, lat, fate)
        };
        Box::pin(async move {
            if latency > 0 {
                tokio::time::sleep(Duration::from_millis(latency)).await;
            }
            match fate {
                DialFate::Refuse => Err(SimDialError::Refused),
                DialFate::Hang => {
                    std::future::pending::<()>().await;
                    unreachable!()
                }
                DialFate::Ok => {
                    let mut n = net.inner.lock();
                    let (m1, m2) = n.modes_for(id);
                    let (f1, f2) = n.faults_for(id);
                    let (c, s) = net::pair(n.seed, id, m1, m2, f1, f2);
                    let now = tokio::time::Instant::now().duration_since(n.t0).as_millis() as u64;
                    n.conns[id as usize].established_ms = Some(now);
                    n.conns[id as usize].c2s = Some(c.tx.clone());
                    n.conns[id as usize].s2c = Some(c.rx.clone());
                    match n.listeners.get(&key) {
                        Some(tx) if tx.send(s).is_ok() => Ok(c),
                        _ => {
                            n.refused_no_listener += 1;
                            Err(SimDialError::NoListener(key))
                        }
                    }
                }
            }
        })
    }
}

pub struct SimAcceptor {
    rx: mpsc::UnboundedReceiver<SimStream>,
}

impl hyperdriver::server::conn::Accept for SimAcceptor {
    type Conn = SimStream;
    type Error = io::Error;

    fn poll_accept(mut self: Pin<&mut Self>, cx: &mut Context<'_>) -> Poll<Result<SimStream, io::Error>> {
        match self.rx.poll_recv(cx) {
            Poll::Ready(Some(s)) => Poll::Ready(Ok(s)),
            Poll::Ready(None) => Poll::Ready(Err(io::Error::new(io::ErrorKind::NotConnected, "listener closed"))),
            Poll::Pending => Poll::Pending,
        }
    }
}

// ------------------------------------------------------------------------------------------
// executor that counts connection tasks

#[derive(Clone, Default)]
pub struct SimExecutor {
    pub spawned: Arc<Mutex<u64>>,
    pub finished: Arc<Mutex<u64>>,
    /// a busy executor: a task handed to it is first polled this many virtual milliseconds later
    /// (whatever happens in between - the shutdown signal, say - finds a task that has never run)
    pub start_delay_ms: u64,
}

impl<F> hyper::rt::Executor<F> for SimExecutor
where
    F: Future + Send + 'static,
    F::Output: Send + 'static,
{
    fn execute(&self, fut: F) {
        *self.spawned.lock() += 1;
        let fin = self.finished.clone();
        let delay = self.start_delay_ms;
        tokio::spawn(async move {
            if delay > 0 {
                tokio::time::sleep(Duration::from_millis(delay)).await;
            }
            crate::net::SpinGuard::new(fut).await;
            *fin.lock() += 1;
        });
    }
}

// ------------------------------------------------------------------------------------------
// a make-service that is not ready the first time it is asked

/// A make-service behind a limit or with lazy set-up: before every connection its `poll_ready`
/// answers Pending once (waking the task), Ready the next time. An accept loop must ask - and
/// wait - before it takes a connection off the listener, or hold on to the connection while it
/// waits.
#[derive(Clone)]
pub struct LazyMake<M> {
    pub inner: M,
    pub asked: bool,
}

impl<'t, M, T> tower::Service<&'t T> for LazyMake<M>
where
    M: tower::Service<&'t T>,
{
    type Response = M::Response;
    type Error = M::Error;
    type Future = M::Future;

    fn poll_ready(&mut self, cx: &mut Context<'_>) -> Poll<Result<(), Self::Error>> {
        if !self.asked {
            self.asked = true;
            cx.waker().wake_by_ref();
            return Poll::Pending;
        }
        self.inner.poll_ready(cx)
    }

    fn call(&mut self, target: &'t T) -> Self::Future {
        self.asked = false;
        self.inner.call(target)
    }
}

// ------------------------------------------------------------------------------------------
// a per-connection service that insists on tower's readiness contract

/// Like tower's ConcurrencyLimit / Buffer / RateLimit: every clone must be driven to readiness
/// (`poll_ready` returning Ready) before each `call`. The first `poll_ready` of a clone answers
/// Pending once (a lazily initialised service). A call on a clone that is not ready is counted
/// and fails, which closes the connection the way a panicking limit service would.
pub struct NeedsReady<S> {
    pub inner: S,
    pub ready: bool,
    pub warmed: bool,
    pub log: Arc<Mutex<HandlerLog>>,
}

impl<S: Clone> Clone for NeedsReady<S> {
    fn clone(&self) -> Self {
        NeedsReady { inner: self.inner.clone(), ready: false, warmed: self.warmed, log: self.log.clone() }
    }
}

impl<S, R, Resp> tower::Service<R> for NeedsReady<S>
where
    S: tower::Service<R, Response = Resp, Error = BoxError>,
    S::Future: Send + 'static,
    Resp: 'static,
{
    type Response = Resp;
    type Error = BoxError;
    type Future = Pin<Box<dyn Future<Output = Result<Resp, BoxError>> + Send>>;

    fn poll_ready(&mut self, cx: &mut Context<'_>) -> Poll<Result<(), BoxError>> {
        if !self.warmed {
            self.warmed = true;
            cx.waker().wake_by_ref();
            return Poll::Pending;
        }
        match self.inner.poll_ready(cx) {
            Poll::Ready(Ok(())) => {
                self.ready = true;
                Poll::Ready(Ok(()))
            }
            other => other,
        }
    }

    fn call(&mut self, req: R) -> Self::Future {
        if !std::mem::replace(&mut self.ready, false) {
            self.log.lock().unready_calls += 1;
            return Box::pin(async { Err::<Resp, BoxError>("service called before poll_ready returned Ready".into()) });
        }
        Box::pin(self.inner.call(req))
    }
}

// ------------------------------------------------------------------------------------------
// handler

#[derive(Clone, Debug, Serialize, Deserialize)]
pub struct HandlerPlan {
    pub delay_ms: u64,
    pub resp_len: usize,
    pub resp_chunk: usize,
    pub resp_delay_ms: u64,
    pub fail: bool,
    pub upgrade: bool,
    /// answer the first arrival of this request (no `hop=1` in its query) with this status and a
    /// Location header pointing at this URI (which carries `hop=1`), and an empty body
    #[serde(default)]
    pub redirect: Option<(u16, String)>,
    /// the response body ends with a trailers frame (judged where the connection is HTTP/2)
    #[serde(default)]
    pub resp_trailers: bool,
}

impl Default for HandlerPlan {
    fn default() -> Self {
        HandlerPlan { delay_ms: 0, resp_len: 5, resp_chunk: 64, resp_delay_ms: 0, fail: false, upgrade: false, redirect: None, resp_trailers: false }
    }
}

#[derive(Clone, Debug)]
pub struct Seen {
    pub id: u32,
    pub origin: String,
    pub conn: u32,
    pub start_ms: u64,
    pub body_done_ms: Option<u64>,
    pub responded_ms: Option<u64>,
    pub version: http::Version,
    pub method: String,
    pub target: String,
    pub host: Option<String>,
    pub header_names: Vec<String>,
    pub extra: Option<String>,
    pub body_ok: bool,
    pub body_len: usize,
    pub problem: Option<String>,
    /// 1 when the request is the follow-up of a redirect (its query carries hop=1)
    pub hop: u8,
    pub user_agent: Option<String>,
    /// value of the TE header as received (`te: trailers` is the one form that is legal over HTTP/2 too)
    pub te: Option<String>,
    /// digest of the trailers frame the request body ended with, if one arrived
    pub req_trailers: Option<String>,
}

#[derive(Default)]
pub struct HandlerLog {
    pub seen: Vec<Seen>,
    /// (connection, number of requests the handler had seen on it when the upgrade completed)
    pub upgraded_conns: Vec<u32>,
    pub upgrade_seen_index: Vec<(u32, usize)>,
    pub echo_bytes: u64,
    /// calls that reached the per-connection service although nobody had driven that clone of it
    /// to readiness first (tower's contract; ConcurrencyLimit, Buffer, RateLimit rely on it)
    pub unready_calls: u64,
}

#[derive(Clone)]
pub struct HandlerCtx {
    pub net: Network,
    pub log: Arc<Mutex<HandlerLog>>,
    pub plans: Arc<BTreeMap<u32, HandlerPlan>>,
    pub origin: String,
}

/// Response status as a function of the request id (codes that always carry a body).
pub fn status_for(id: u32) -> u16 {
    [200u16, 201, 202, 203, 207][(id % 5) as usize]
}

pub fn parse_id(path: &str) -> Option<u32> {
    // /r/<id>/...
    let mut it = path.split('/');
    it.next()?;
    if it.next()? != "r" {
        return None;
    }
    it.next()?.parse().ok()
}

pub async fn handle(ctx: HandlerCtx, conn: u32, mut req: http::Request<hyperdriver::Body>) -> Result<http::Response<ChunkBody>, BoxError> {
    let start = ctx.net.now_ms();
    let path_id = parse_id(req.uri().path());
    let hdr_id: Option<u32> = req.headers().get("x-req-id").and_then(|v| v.to_str().ok()).and_then(|s| s.parse().ok());
    let declared_len: Option<usize> = req.headers().get("x-body-len").and_then(|v| v.to_str().ok()).and_then(|s| s.parse().ok());
    let id = path_id.or(hdr_id).unwrap_or(u32::MAX);
    let plan = ctx.plans.get(&id).cloned().unwrap_or_default();
    let idx = {
        let mut log = ctx.log.lock();
        log.seen.push(Seen {
            id,
            origin: ctx.origin.clone(),
            conn,
            start_ms: start,
            body_done_ms: None,
            responded_ms: None,
            version: req.version(),
            method: req.method().to_string(),
            target: req.uri().to_string(),
            host: req.headers().get(http::header::HOST).and_then(|v| v.to_str().ok()).map(|s| s.to_string()),
            header_names: req.headers().keys().map(|k| k.as_str().to_string()).collect(),
            extra: req.headers().get("x-extra").and_then(|v| v.to_str().ok()).map(|s| s.to_string()),
            body_ok: false,
            body_len: 0,
            problem: None,
            hop: if req.uri().query().map(|q| q.split('&').any(|kv| kv == "hop=1")).unwrap_or(false) { 1 } else { 0 },
            user_agent: req.headers().get(http::header::USER_AGENT).and_then(|v| v.to_str().ok()).map(|s| s.to_string()),
            te: req.headers().get(http::header::TE).and_then(|v| v.to_str().ok()).map(|s| s.to_string()),
            req_trailers: None,
        });
        log.seen.len() - 1
    };
    let mut problem = None;
    if path_id != hdr_id && !(path_id.is_none() && req.uri().path() == "/") {
        problem = Some(format!("id in path {:?} differs from id in header {:?}", path_id, hdr_id));
    }
    // read and verify the body
    let upgrade_requested = req.headers().contains_key(http::header::UPGRADE) && plan.upgrade;
    let mut got = 0usize;
    let mut ok = true;
    if !upgrade_requested {
        let body = req.body_mut();
        loop {
            match body.frame().await {
                None => break,
                Some(Ok(f)) => {
                    if let Some(d) = f.data_ref() {
                        for b in d.iter() {
                            if *b != req_byte(id, got as u64) {
                                ok = false;
                            }
                            got += 1;
                        }
                    }
                    if let Some(t) = f.trailers_ref() {
                        ctx.log.lock().seen[idx].req_trailers = Some(trailers_digest(t));
                    }
                }
                Some(Err(e)) => {
                    // the client went away / connection broke while sending: not the handler's problem
                    let mut log = ctx.log.lock();
                    log.seen[idx].problem = problem;
                    log.seen[idx].body_len = got;
                    return Err(format!("request body error: {}", e).into());
                }
            }
        }
        // (after a redirect the replayed headers still announce the original body length)
        let hop = ctx.log.lock().seen[idx].hop;
        if let (Some(l), 0) = (declared_len, hop) {
            if l != got {
                problem = Some(format!("request {} declared {} body bytes, handler received {}", id, l, got));
            }
        }
        if !ok {
            problem = Some(format!("request {} body bytes differ from what the caller sent", id));
        }
    }
    {
        let mut log = ctx.log.lock();
        log.seen[idx].body_done_ms = Some(ctx.net.now_ms());
        log.seen[idx].body_ok = ok;
        log.seen[idx].body_len = got;
        log.seen[idx].problem = problem.clone();
    }
    if plan.delay_ms > 0 {
        tokio::time::sleep(Duration::from_millis(plan.delay_ms)).await;
    }
    if plan.fail {
        return Err("handler failure (simulated)".into());
    }
    if upgrade_requested {
        let on = hyper::upgrade::on(&mut req);
        let log = ctx.log.clone();
        tokio::spawn(async move {
            if let Ok(up) = on.await {
                {
                    let mut l = log.lock();
                    l.upgraded_conns.push(conn);
                    let n = l.seen.len();
                    l.upgrade_seen_index.push((conn, n));
                }
                let mut io = hyperdriver::bridge::io::TokioIo::new(up);
                use tokio::io::{AsyncReadExt, AsyncWriteExt};
                let mut buf = vec![0u8; 1024];
                loop {
                    match io.read(&mut buf).await {
                        Ok(0) | Err(_) => break,
                        Ok(n) => {
                            log.lock().echo_bytes += n as u64;
                            if io.write_all(&buf[..n]).await.is_err() || io.flush().await.is_err() {
                                break;
                            }
                        }
                    }
                }
            }
        });
        let mut resp = http::Response::new(ChunkBody::default());
        *resp.status_mut() = http::StatusCode::SWITCHING_PROTOCOLS;
        resp.headers_mut().insert(http::header::CONNECTION, "upgrade".parse().unwrap());
        resp.headers_mut().insert(http::header::UPGRADE, "sim".parse().unwrap());
        resp.headers_mut().insert("x-req-id", id.to_string().parse().unwrap());
        ctx.log.lock().seen[idx].responded_ms = Some(ctx.net.now_ms());
        return Ok(resp);
    }
    if let Some((status, location)) = &plan.redirect {
        if ctx.log.lock().seen[idx].hop == 0 {
            let mut resp = http::Response::new(ChunkBody::default());
            *resp.status_mut() = http::StatusCode::from_u16(*status).unwrap();
            resp.headers_mut().insert(http::header::LOCATION, location.parse().unwrap());
            resp.headers_mut().insert("x-req-id", id.to_string().parse().unwrap());
            resp.headers_mut().insert("x-origin", ctx.origin.parse().unwrap());
            ctx.log.lock().seen[idx].responded_ms = Some(ctx.net.now_ms());
            return Ok(resp);
        }
    }
    if req.method() == http::Method::CONNECT {
        // no tunnelling in this handler: an ordinary refusal keeps HTTP/1 framing simple
        let mut resp = http::Response::new(ChunkBody::default());
        *resp.status_mut() = http::StatusCode::METHOD_NOT_ALLOWED;
        resp.headers_mut().insert("x-req-id", id.to_string().parse().unwrap());
        ctx.log.lock().seen[idx].responded_ms = Some(ctx.net.now_ms());
        return Ok(resp);
    }
    let mut resp = http::Response::new(ChunkBody::new(resp_body(id, plan.resp_len), plan.resp_chunk, plan.resp_delay_ms));
    if plan.resp_trailers {
        resp.body_mut().trailers = Some(trailers_for(id, true));
    }
    *resp.status_mut() = http::StatusCode::from_u16(status_for(id)).unwrap();
    let h = resp.headers_mut();
    h.insert("x-req-id", id.to_string().parse().unwrap());
    h.insert("x-origin", ctx.origin.parse().unwrap());
    h.insert("x-conn", conn.to_string().parse().unwrap());
    h.insert("x-resp-len", plan.resp_len.to_string().parse().unwrap());
    h.insert("x-check", format!("{:x}", crate::rng::splitmix64(id as u64)).parse().unwrap());
    ctx.log.lock().seen[idx].responded_ms = Some(ctx.net.now_ms());
    Ok(resp)
}

#[derive(Clone, Copy, Debug, Serialize, Deserialize, PartialEq, Eq)]
pub enum ServerProto {
    Auto,
    H1,
    H2,
}

/// Build and run a hyperdriver server for one origin on the simulated network. Returns when the
/// serving future resolves.
pub async fn run_server(
    acceptor: SimAcceptor,
    proto: ServerProto,
    tls: Option<Arc<rustls::ServerConfig>>,
    ctx: HandlerCtx,
    exec: SimExecutor,
    shutdown: Option<tokio::sync::oneshot::Receiver<()>>,
) -> Result<(), hyperdriver::server::ServerError> {
    run_server_opts(acceptor, proto, tls, ctx, exec, shutdown, false, false).await
}

/// `native_h1`: an http1-only server is configured by hyperdriver's own `with_http1()` (its Date
/// header has a fixed length, unlike HTTP/2's HPACK-coded one, so runs still replay).
pub async fn run_server_opts(
    acceptor: SimAcceptor,
    proto: ServerProto,
    tls: Option<Arc<rustls::ServerConfig>>,
    ctx: HandlerCtx,
    exec: SimExecutor,
    shutdown: Option<tokio::sync::oneshot::Receiver<()>>,
    native_h1: bool,
    tls_info: bool,
) -> Result<(), hyperdriver::server::ServerError> {
    run_server_held(acceptor, proto, tls, ctx, exec, shutdown, native_h1, tls_info, None).await
}

/// ((virtual ms, pumped ms) at completion, result) of a serving future that is kept alive.
pub type HeldResult = Arc<Mutex<Option<((u64, u64), Result<(), String>)>>>;

/// `held`: the serving future is not consumed: it is polled through a reference and, once it has
/// completed, kept alive (this function then never returns; the outcome is left in the slot).
#[allow(clippy::too_many_arguments)]
pub async fn run_server_held(
    acceptor: SimAcceptor,
    proto: ServerProto,
    tls: Option<Arc<rustls::ServerConfig>>,
    ctx: HandlerCtx,
    exec: SimExecutor,
    shutdown: Option<tokio::sync::oneshot::Receiver<()>>,
    native_h1: bool,
    tls_info: bool,
    held: Option<HeldResult>,
) -> Result<(), hyperdriver::server::ServerError> {
    let net_for_clock = ctx.net.clone();
    use hyperdriver::info::HasConnectionInfo;
    use hyperdriver::server::conn::Acceptor;
    let acc = Acceptor::new(acceptor);
    let acc = match tls {
        Some(cfg) => acc.with_tls(cfg),
        None => acc,
    };
    let make = hyperdriver::service::make_service_fn(move |stream: &hyperdriver::server::conn::Stream<SimStream>| {
        let conn = stream.info().remote_addr().0;
        let ctx = ctx.clone();
        async move {
            let log = ctx.log.clone();
            Ok::<_, Infallible>(NeedsReady { inner: tower::service_fn(move |req: http::Request<hyperdriver::Body>| handle(ctx.clone(), conn, req)), ready: false, warmed: false, log })
        }
    });
    let make = LazyMake { inner: make, asked: false };
    let signal = async move {
        match shutdown {
            Some(rx) => {
                let _ = rx.await;
            }
            None => std::future::pending::<()>().await,
        }
    };
    // hyper stamps responses with a Date header taken from the real wall clock. Its *length* on
    // the wire depends on the value (HPACK Huffman coding), so it is a source of nondeterminism;
    // hyper's own builder option switches it off. Everything else is what with_auto_http() /
    // with_http1() / with_http2() would configure.
    use hyperdriver::bridge::rt::TokioExecutor;
    macro_rules! drive {
        ($f:expr) => {{
            let mut fut = Box::pin($f);
            let r = (&mut fut).await;
            if let Some(slot) = &held {
                *slot.lock() = Some(((net_for_clock.now_ms(), crate::net::pumped_ms()), r.as_ref().map(|_| ()).map_err(|e| e.to_string())));
                std::future::pending::<()>().await;
            }
            drop(fut);
            r
        }};
    }
    macro_rules! serve {
        ($b:expr) => {{
            let b = $b;
            match proto {
                ServerProto::Auto => {
                    let mut p = hyperdriver::server::AutoBuilder::new(TokioExecutor::new());
                    p.http1().auto_date_header(false);
                    p.http2().auto_date_header(false);
                    drive!(b.with_protocol(p).with_executor(exec).with_graceful_shutdown(signal))
                }
                ServerProto::H1 if native_h1 => drive!(b.with_http1().with_executor(exec).with_graceful_shutdown(signal)),
                ServerProto::H1 => {
                    let mut p = hyperdriver::server::conn::http1::Builder::new();
                    p.auto_date_header(false);
                    drive!(b.with_protocol(p).with_executor(exec).with_graceful_shutdown(signal))
                }
                ServerProto::H2 => {
                    let mut p = hyperdriver::server::conn::http2::Builder::new(TokioExecutor::new());
                    p.auto_date_header(false);
                    drive!(b.with_protocol(p).with_executor(exec).with_graceful_shutdown(signal))
                }
            }
        }};
    }
    let b = hyperdriver::Server::builder::<hyperdriver::Body>().with_acceptor(acc).with_make_service(make);
    if tls_info {
        // the make-service is wrapped in the layer that hands the TLS handshake's outcome to the
        // requests (Server::with_tls_connection_info), as in the repository's own TLS example
        serve!(b.with_tls_connection_info())
    } else {
        serve!(b)
    }
}

/// Collect pipe statistics of all connections into counters.
pub fn net_counters(net: &Network, out: &mut crate::framework::Outcome) -> (u64, bool) {
    let n = net.inner.lock();
    let mut log = n.log;
    let mut any_fault = false;
    for c in &n.conns {
        for p in [&c.c2s, &c.s2c].into_iter().flatten() {
            let p = p.lock();
            log.push(p.log.0);
            log.push(p.written);
            log.push(p.read);
            out.add("fault.short_read", p.stats.short_reads);
            out.add("fault.short_write", p.stats.short_writes);
            out.add("fault.pending_inject", p.stats.pending_injected);
            out.add("fault.delay_inject", p.stats.delays_injected);
            out.add("fault.tiny_buffer_full", p.stats.tiny_buffer_full);
            out.add("probe.write_after_peer_close_discarded", p.stats.discarded_after_peer_close);
            for k in &p.stats.faults_fired {
                any_fault = true;
                out.count(&format!("fault.peer_{:?}", k).to_lowercase());
            }
        }
        match c.fate {
            DialFate::Refuse => {
                any_fault = true;
                out.count("fault.dial_refused")
            }
            DialFate::Hang => {
                any_fault = true;
                out.count("fault.dial_hang")
            }
            DialFate::Ok => {}
        }
    }
    (log.0, any_fault)
}
