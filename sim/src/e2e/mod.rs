//! Engine B `e2esim`: hyperdriver's real client stack (timeout, user-agent, pool, host / http2 /
//! http1 checks, executor, HttpConnectionBuilder, TLS transport) talking to real hyperdriver
//! servers (accept loop, auto protocol detection, TLS acceptor, graceful shutdown) through hyper,
//! h2 and rustls, over the simulated network. Mode `e2e` decides C01 (and feeds C13 / C17).

pub mod grammar;
pub mod infra;
pub mod realsock;
pub mod shutdown;
pub mod sniff;
pub mod srvfault;
pub mod tlsmode;
pub mod wire;

use std::collections::BTreeMap;
use std::sync::Arc;
use std::time::Duration;

use http_body_util::BodyExt;
use parking_lot::Mutex;
use serde::{Deserialize, Serialize};
use serde_json::json;
use tower::ServiceExt;

use crate::framework::{Outcome, Scenario, ScenarioInfo, Tier, Violation};
use crate::net::FaultKind;
use crate::rng::{Digest, Rng};
use crate::{simrt, tlsfix};
use infra::*;

#[derive(Clone, Copy, Debug, Serialize, Deserialize, PartialEq, Eq)]
pub enum Ver {
    H10,
    H11,
    H2,
}

impl Ver {
    pub fn http(self) -> http::Version {
        match self {
            Ver::H10 => http::Version::HTTP_10,
            Ver::H11 => http::Version::HTTP_11,
            Ver::H2 => http::Version::HTTP_2,
        }
    }
}

#[derive(Clone, Copy, Debug, Serialize, Deserialize, PartialEq, Eq)]
pub enum ReadMode {
    Full,
    Slow,
    DropBody,
}

#[derive(Clone, Debug, Serialize, Deserialize)]
pub struct OriginCfg {
    pub uri: String,
    pub proto: ServerProto,
    pub tls: bool,
    pub alpn_h2: bool,
}

#[derive(Clone, Debug, Serialize, Deserialize)]
pub struct ClientCfg {
    pub pool: bool,
    pub idle_timeout_ms: Option<u64>,
    pub max_idle: usize,
    pub continue_after_preemption: bool,
    pub alpn_h2: bool,
    pub timeout_ms: Option<u64>,
    /// order of the builder calls: bit 0 pool first, bit 1 TLS first, bit 2 timeout first (i.e.
    /// before the calls that rebuild the builder with another type: transport, body, protocol);
    /// bits 3-4: with_standard_redirect_policy() not called / called first / called last
    #[serde(default)]
    pub order: u8,
    /// the protocol (the service that performs the HTTP handshake on a fresh transport) answers
    /// Pending - after waking the task - this many times to every readiness question before it is
    /// ready; 0 = the stock, always ready protocol
    #[serde(default)]
    pub busy: u8,
}

/// A protocol behind a limit: `poll_ready` is Pending `n` times (waking the task each time) for
/// every connection attempt, then delegates to the stock HTTP protocol.
#[derive(Clone)]
pub struct BusyProtocol<P> {
    inner: P,
    n: u8,
    left: u8,
}

impl<P> BusyProtocol<P> {
    pub fn new(inner: P, n: u8) -> Self {
        BusyProtocol { inner, n, left: n }
    }
}

impl<P, R> tower::Service<R> for BusyProtocol<P>
where
    P: tower::Service<R>,
{
    type Response = P::Response;
    type Error = P::Error;
    type Future = P::Future;

    fn poll_ready(&mut self, cx: &mut std::task::Context<'_>) -> std::task::Poll<Result<(), Self::Error>> {
        if self.left > 0 {
            self.left -= 1;
            cx.waker().wake_by_ref();
            return std::task::Poll::Pending;
        }
        self.inner.poll_ready(cx)
    }

    fn call(&mut self, req: R) -> Self::Future {
        self.left = self.n;
        self.inner.call(req)
    }
}

/// The server of the request's origin answers the first arrival with a redirect to the same
/// request on `to_origin` (the default client follows redirects through tower-http's
/// FollowRedirect with the standard policy).
#[derive(Clone, Debug, Serialize, Deserialize, PartialEq)]
pub struct RedirectPlan {
    pub status: u16,
    pub to_origin: usize,
}

/// What FollowRedirect does with (status, method, request body): None = not followed, the caller
/// gets the 3xx response; Some(method) = followed with this method (and an empty body - a body
/// that is not known to be empty cannot be replayed).
pub fn redirect_outcome(client_follows: bool, status: u16, method: &str, body_len: usize) -> Option<String> {
    if !client_follows {
        return None; // Client::builder() has no redirect layer unless with_standard_redirect_policy() is called
    }
    match status {
        301 | 302 => {
            if method == "POST" {
                Some("GET".into())
            } else if body_len == 0 {
                Some(method.into())
            } else {
                None
            }
        }
        303 => Some(if method == "HEAD" { "HEAD".into() } else { "GET".into() }),
        307 | 308 => {
            if body_len == 0 {
                Some(method.into())
            } else {
                None
            }
        }
        _ => None,
    }
}

impl ClientCfg {
    /// the redirect layer is only there when with_standard_redirect_policy() was called (order bits 3-4)
    pub fn follows_redirects(&self) -> bool {
        matches!((self.order >> 3) & 3, 1 | 2)
    }
}

#[derive(Clone, Debug, Serialize, Deserialize)]
pub struct ReqPlan {
    pub id: u32,
    pub origin: usize,
    pub method: String,
    pub ver: Ver,
    pub path_tail: String,
    /// 0: /r/<id>/<tail>; 1: the root path "/"; 2: no path at all (http://host?query)
    #[serde(default)]
    pub path_form: u8,
    #[serde(default)]
    pub redirect: Option<RedirectPlan>,
    /// a User-Agent supplied by the caller (the client only adds its own when there is none)
    #[serde(default)]
    pub user_agent: Option<String>,
    /// a Host header supplied by the caller (a virtual host that differs from the URI's
    /// authority): over HTTP/1 it must reach the handler as sent
    #[serde(default)]
    pub host_header: Option<String>,
    /// the caller sets `te: trailers` (must reach the handler over HTTP/1 and over HTTP/2)
    #[serde(default)]
    pub te_trailers: bool,
    /// the request body ends with a trailers frame (judged where the connection is HTTP/2)
    #[serde(default)]
    pub req_trailers: bool,
    pub query: Option<String>,
    pub extra: Option<String>,
    pub body_len: usize,
    pub body_chunk: usize,
    pub body_delay_ms: u64,
    pub start_ms: u64,
    pub cancel_at_ms: Option<u64>,
    pub read: ReadMode,
    pub upgrade: bool,
    pub handler: HandlerPlan,
}

#[derive(Clone, Debug, Serialize, Deserialize)]
pub struct E2eCase {
    pub seed: u64,
    pub origins: Vec<OriginCfg>,
    pub client: ClientCfg,
    pub requests: Vec<ReqPlan>,
    pub net: NetPlan,
}

#[derive(Clone, Debug, PartialEq)]
pub enum ROutcome {
    NotStarted,
    Ok,
    /// error kind, virtual ms
    Err(String, u64),
    Cancelled(&'static str, u64),
    Wrong(String),
    Pending,
}

#[derive(Clone, Debug)]
pub struct RRec {
    pub outcome: ROutcome,
    pub start_ms: u64,
    pub head_ms: Option<u64>,
    pub end_ms: Option<u64>,
    pub conn: Option<u32>,
    pub status: Option<u16>,
    pub body_progress: Arc<Mutex<u64>>,
}

pub type ClientSvc = hyperdriver::service::SharedService<http::Request<ChunkBody>, http::Response<hyperdriver::Body>, hyperdriver::client::Error>;

pub fn build_client(net: &Network, cfg: &ClientCfg, any_tls: bool) -> ClientSvc {
    let mut pc = hyperdriver::client::PoolConfig::default();
    pc.idle_timeout = cfg.idle_timeout_ms.map(Duration::from_millis);
    pc.max_idle_per_host = cfg.max_idle;
    pc.continue_after_preemption = cfg.continue_after_preemption;
    let (pool_first, tls_first, timeout_first, redirect_call) = (cfg.order & 1 != 0, cfg.order & 2 != 0, cfg.order & 4 != 0, (cfg.order >> 3) & 3);
    let tls_cfg = || {
        let alpn: &[&str] = if cfg.alpn_h2 { &["h2", "http/1.1"] } else { &["http/1.1"] };
        (*tlsfix::client_config(alpn)).clone()
    };
    // configuration set on the builder must survive the calls that rebuild it with another type
    let mut b0 = hyperdriver::Client::builder();
    if redirect_call == 1 {
        b0 = b0.with_standard_redirect_policy();
    }
    if pool_first {
        b0 = if cfg.pool { b0.with_pool(pc.clone()) } else { b0.without_pool() };
    }
    if tls_first {
        b0 = if any_tls { b0.with_tls(tls_cfg()) } else { b0.without_tls() };
    }
    if timeout_first {
        b0 = b0.with_optional_timeout(cfg.timeout_ms.map(Duration::from_millis));
    }
    macro_rules! finish {
        ($b:expr) => {{
            let mut b = $b;
            if !timeout_first {
                b = b.with_optional_timeout(cfg.timeout_ms.map(Duration::from_millis));
            }
            if !pool_first {
                b = if cfg.pool { b.with_pool(pc) } else { b.without_pool() };
            }
            if !tls_first {
                b = if any_tls { b.with_tls(tls_cfg()) } else { b.without_tls() };
            }
            if redirect_call == 2 {
                b.with_standard_redirect_policy().build_service()
            } else {
                b.build_service()
            }
        }};
    }
    let base = b0.with_transport(net.transport()).with_body::<ChunkBody, hyperdriver::Body>();
    if cfg.busy > 0 {
        let stock = hyperdriver::client::conn::protocol::auto::HttpConnectionBuilder::<ChunkBody>::default();
        finish!(base.with_protocol(BusyProtocol::new(stock, cfg.busy)))
    } else {
        finish!(base.with_auto_http())
    }
}

pub fn request_uri(origin: &str, p: &ReqPlan) -> String {
    let mut s = match p.path_form {
        1 => format!("{}/", origin),
        2 => origin.to_string(),
        _ => format!("{}/r/{}/{}", origin, p.id, p.path_tail),
    };
    if let Some(q) = &p.query {
        s.push('?');
        s.push_str(q);
    }
    s
}

/// Where the redirect of request `p` points: the same request on another origin, marked hop=1.
pub fn redirect_location(to_origin: &str, p: &ReqPlan) -> String {
    format!("{}/r/{}/{}?hop=1", to_origin, p.id, p.path_tail)
}

pub fn build_request(origin: &str, p: &ReqPlan, progress: Arc<Mutex<u64>>) -> http::Request<ChunkBody> {
    let mut body = ChunkBody::new(req_body(p.id, p.body_len), p.body_chunk, p.body_delay_ms);
    body.progress = Some(progress);
    if p.req_trailers {
        body.trailers = Some(infra::trailers_for(p.id, false));
    }
    let mut b = http::Request::builder()
        .method(p.method.as_str())
        .uri(request_uri(origin, p))
        .version(p.ver.http())
        .header("x-req-id", p.id.to_string())
        .header("x-body-len", p.body_len.to_string());
    if let Some(e) = &p.extra {
        b = b.header("x-extra", e.as_str());
    }
    if let Some(ua) = &p.user_agent {
        b = b.header(http::header::USER_AGENT, ua.as_str());
    }
    if let Some(h) = &p.host_header {
        b = b.header(http::header::HOST, h.as_str());
    }
    if p.te_trailers {
        b = b.header(http::header::TE, "trailers");
    }
    if p.upgrade {
        b = b.header(http::header::UPGRADE, "sim").header(http::header::CONNECTION, "upgrade");
    }
    let mut req = b.body(body).expect("request");
    req.extensions_mut().insert(ReqTag(p.id));
    req
}

/// One client request task. Records everything in `rec`.
pub async fn run_request(net: Network, svc: ClientSvc, origin: String, p: ReqPlan, recs: Arc<Mutex<BTreeMap<u32, RRec>>>) {
    run_request_to(net, svc, origin, None, false, p, recs).await
}

/// `redirect_target`: the origin the request is redirected to, when its plan says so; `follows`:
/// the client was built with a redirect policy.
pub async fn run_request_to(net: Network, svc: ClientSvc, origin: String, redirect_target: Option<String>, follows: bool, p: ReqPlan, recs: Arc<Mutex<BTreeMap<u32, RRec>>>) {
    let progress = Arc::new(Mutex::new(0u64));
    if p.start_ms > 0 {
        tokio::time::sleep(Duration::from_millis(p.start_ms)).await;
    }
    let start = net.now_ms();
    recs.lock().insert(
        p.id,
        RRec { outcome: ROutcome::Pending, start_ms: start, head_ms: None, end_ms: None, conn: None, status: None, body_progress: progress.clone() },
    );
    let req = build_request(&origin, &p, progress.clone());
    let t0 = net.inner.lock().t0;
    let cancel = async move {
        match p.cancel_at_ms {
            Some(t) => tokio::time::sleep_until(t0 + Duration::from_millis(t)).await,
            None => std::future::pending::<()>().await,
        }
    };
    tokio::pin!(cancel);
    let fut = svc.oneshot(req);
    tokio::pin!(fut);
    let set = |o: ROutcome| {
        let mut r = recs.lock();
        let e = r.get_mut(&p.id).unwrap();
        e.outcome = o;
        e.end_ms = Some(net.now_ms());
    };
    let resp = tokio::select! {
        biased;
        r = &mut fut => r,
        _ = &mut cancel => {
            set(ROutcome::Cancelled("before_head", net.now_ms()));
            return;
        }
    };
    let mut resp = match resp {
        Ok(r) => r,
        Err(e) => {
            let kind = match &e {
                hyperdriver::client::Error::RequestTimeout => "timeout".to_string(),
                other => format!("{}", other),
            };
            set(ROutcome::Err(kind, net.now_ms()));
            return;
        }
    };
    {
        let mut r = recs.lock();
        let e = r.get_mut(&p.id).unwrap();
        e.head_ms = Some(net.now_ms());
        e.status = Some(resp.status().as_u16());
        e.conn = resp.headers().get("x-conn").and_then(|v| v.to_str().ok()).and_then(|s| s.parse().ok());
    }
    // ---- verify the head
    let hdr = |n: &str| resp.headers().get(n).and_then(|v| v.to_str().ok()).map(|s| s.to_string());
    if p.upgrade && resp.status() == http::StatusCode::SWITCHING_PROTOCOLS {
        if hdr("x-req-id") != Some(p.id.to_string()) {
            set(ROutcome::Wrong(format!("upgrade response carries id {:?}", hdr("x-req-id"))));
            return;
        }
        let up = hyper::upgrade::on(&mut resp).await;
        match up {
            Err(e) => set(ROutcome::Err(format!("upgrade: {}", e), net.now_ms())),
            Ok(up) => {
                use tokio::io::{AsyncReadExt, AsyncWriteExt};
                let mut io = hyperdriver::bridge::io::TokioIo::new(up);
                let data = req_body(p.id ^ 0x5555, 300);
                let echo = async {
                    io.write_all(&data).await?;
                    io.flush().await?; // TLS buffers what the socket did not take at once
                    let mut back = vec![0u8; data.len()];
                    io.read_exact(&mut back).await?;
                    Ok::<_, std::io::Error>(back)
                };
                tokio::select! {
                    biased;
                    r = echo => match r {
                        Ok(back) if back == data => set(ROutcome::Ok),
                        Ok(_) => set(ROutcome::Wrong("bytes echoed over the upgraded connection differ".into())),
                        Err(e) => set(ROutcome::Err(format!("upgraded io: {}", e.kind()), net.now_ms())),
                    },
                    _ = &mut cancel => set(ROutcome::Cancelled("upgraded_io", net.now_ms())),
                }
            }
        }
        return;
    }
    // a redirect that cannot be followed (a body that cannot be replayed) is handed to the caller as it is
    let followed_method = p.redirect.as_ref().and_then(|r| redirect_outcome(follows, r.status, &p.method, p.body_len));
    if let (Some(r), None) = (&p.redirect, &followed_method) {
        if resp.status().as_u16() != r.status {
            set(ROutcome::Wrong(format!("status {} but the server answered request {} with the redirect {}, which cannot be followed", resp.status().as_u16(), p.id, r.status)));
        } else if hdr("x-req-id") != Some(p.id.to_string()) {
            set(ROutcome::Wrong(format!("redirect response carries id {:?}, request was {}", hdr("x-req-id"), p.id)));
        } else {
            set(ROutcome::Ok);
        }
        return;
    }
    let origin = match (&p.redirect, redirect_target) {
        (Some(_), Some(t)) => t,
        _ => origin,
    };
    let expect_status = infra::status_for(p.id);
    if resp.status().as_u16() != expect_status {
        set(ROutcome::Wrong(format!("status {} but the server produced {} for request {} (location header of what was received: {:?})", resp.status().as_u16(), expect_status, p.id, hdr("location"))));
        return;
    }
    if hdr("x-req-id") != Some(p.id.to_string()) {
        set(ROutcome::Wrong(format!("response carries id {:?}, request was {}", hdr("x-req-id"), p.id)));
        return;
    }
    if hdr("x-check") != Some(format!("{:x}", crate::rng::splitmix64(p.id as u64))) {
        set(ROutcome::Wrong("response header x-check altered".into()));
        return;
    }
    let origin_key = origin_key(&origin.parse::<http::Uri>().unwrap());
    if hdr("x-origin").map(|o| origin_key_str(&o)) != Some(origin_key.clone()) {
        set(ROutcome::Wrong(format!("request for {} was answered by the server of {:?}", origin_key, hdr("x-origin"))));
        return;
    }
    if p.read == ReadMode::DropBody {
        drop(resp);
        set(ROutcome::Ok);
        return;
    }
    // ---- read and verify the body
    let is_head = followed_method.as_deref().unwrap_or(p.method.as_str()) == "HEAD";
    let expect_len = if is_head { 0 } else { p.handler.resp_len };
    let mut got = 0usize;
    let resp_version = resp.version();
    let mut got_trailers: Option<String> = None;
    let body = resp.body_mut();
    loop {
        let frame = tokio::select! {
            biased;
            f = body.frame() => f,
            _ = &mut cancel => {
                set(ROutcome::Cancelled("response_body", net.now_ms()));
                return;
            }
        };
        match frame {
            None => break,
            Some(Ok(f)) => {
                if let Some(d) = f.data_ref() {
                    for b in d.iter() {
                        if *b != resp_byte(p.id, got as u64) {
                            set(ROutcome::Wrong(format!("response body byte {} differs from what the server sent for request {}", got, p.id)));
                            return;
                        }
                        got += 1;
                    }
                }
                if let Some(t) = f.trailers_ref() {
                    got_trailers = Some(infra::trailers_digest(t));
                }
                if p.read == ReadMode::Slow {
                    tokio::time::sleep(Duration::from_millis(3)).await;
                }
            }
            Some(Err(e)) => {
                set(ROutcome::Err(format!("body: {}", e), net.now_ms()));
                return;
            }
        }
    }
    if got != expect_len {
        set(ROutcome::Wrong(format!("response body has {} bytes, the server sent {} (request {})", got, expect_len, p.id)));
        return;
    }
    // trailers are part of the body: HTTP/2 always carries them (HTTP/1 only under conditions
    // hyper decides, so only their *content* is judged there)
    let want = infra::trailers_digest(&infra::trailers_for(p.id, true));
    match (&got_trailers, p.handler.resp_trailers && !is_head) {
        (Some(g), true) if *g != want => {
            set(ROutcome::Wrong(format!("response trailers {:?} differ from what the server sent for request {} ({:?})", g, p.id, want)));
            return;
        }
        (None, true) if resp_version == http::Version::HTTP_2 => {
            set(ROutcome::Wrong(format!("response body of request {} ended without the trailers the server sent (HTTP/2)", p.id)));
            return;
        }
        (Some(g), false) => {
            set(ROutcome::Wrong(format!("response body of request {} ended with trailers {:?}, the server sent none", p.id, g)));
            return;
        }
        _ => {}
    }
    set(ROutcome::Ok);
}

fn origin_key_str(s: &str) -> String {
    s.parse::<http::Uri>().map(|u| origin_key(&u)).unwrap_or_else(|_| s.to_string())
}

pub struct E2eSim;

/// The same engine with a workload shaped for C15: bursts of concurrent HTTP/1.1 requests to one
/// origin through a client built by `Client::builder()` (every order of the builder calls) with a
/// small max_idle_per_host; no faults, no cancels, so that the idle count can be judged at the end.
pub struct E2eIdleSim;

fn gen_idle_case(seed: u64) -> E2eCase {
    let mut r = Rng::keyed(seed, "e2e/idle");
    let mut case = gen_case(seed);
    let k = r.range(2, 6) as usize;
    case.client.pool = true;
    case.client.max_idle = *r.pick(&[0usize, 1, 2, k.saturating_sub(1), k, k + 1]);
    case.client.idle_timeout_ms = *r.pick(&[None, Some(90_000)]);
    case.client.alpn_h2 = false;
    case.client.order = r.below(24) as u8;
    case.net = NetPlan::plain();
    case.origins.truncate(1);
    case.origins[0].proto = *r.pick(&[ServerProto::H1, ServerProto::Auto]);
    case.origins[0].alpn_h2 = false;
    case.requests.truncate(0);
    for id in 0..k as u32 {
        let mut p = gen_request(&mut r, id, &case.origins, false, 1);
        p.ver = Ver::H11;
        p.start_ms = 0;
        p.cancel_at_ms = None;
        p.upgrade = false;
        p.handler.upgrade = false;
        p.handler.fail = false;
        // keep the requests overlapping: every handler waits a little
        p.handler.delay_ms = p.handler.delay_ms.max(5);
        p.read = ReadMode::Full;
        case.requests.push(p);
    }
    case
}

/// The same engine with a workload for C19: every request goes through the client's timeout
/// layer; handler delays and one-hop redirects are placed around the deadline.
pub struct E2eTimeoutSim;

fn gen_timeout_case(seed: u64) -> E2eCase {
    let mut r = Rng::keyed(seed, "e2e/timeout");
    let mut case = gen_case(seed);
    let t = *r.pick(&[20u64, 50, 200]);
    case.client.timeout_ms = Some(t);
    // two thirds of the clients follow redirects
    case.client.order = (case.client.order & 7) | ((r.below(3) as u8) << 3);
    case.net = NetPlan::plain();
    for p in case.requests.iter_mut() {
        p.cancel_at_ms = None;
        p.read = ReadMode::Full;
        p.body_delay_ms = 0;
        p.handler.resp_delay_ms = 0;
        p.handler.delay_ms = *r.pick(&[0, 1, t / 2 + 2, t - 2, t + 5]);
        if p.redirect.is_none() && !p.upgrade && p.path_form == 0 && r.chance(1, 2) {
            // to the same origin (always speaks the request's version), in a form that is followed
            p.redirect = Some(RedirectPlan { status: *r.pick(&[303u16, 307, 308]), to_origin: p.origin });
            p.body_len = 0;
        }
    }
    case
}

impl Scenario for E2eTimeoutSim {
    type Case = E2eCase;

    fn engine(&self) -> &'static str {
        "e2etimeout"
    }

    fn info(&self) -> ScenarioInfo {
        ScenarioInfo {
            rule: "the e2esim world with a client timeout T in {20, 50, 200} ms of virtual time, handler delays in {0, 1, T/2+2, T-2, T+5} (applied to every hop), half of the requests redirected once (to the same origin), clients built with and without the redirect layer in every order of the builder calls, fault-free network. Oracle: every request resolves - response head, error or RequestTimeout - no later than T after it was issued, and a RequestTimeout never comes early. distinct = the e2esim measure.".into(),
            real: E2eSim.info().real,
            stub: E2eSim.info().stub,
            assumptions: vec!["complements timersim (the layer alone) and poolsim (every pool stage): this part sees the position of the timeout layer in the client's stack".into()],
        }
    }

    fn num_cases(&self, tier: Tier) -> (u64, u64) {
        (0, if tier == Tier::Quick { 1500 } else { 100_000 })
    }

    fn case(&self, _index: u64, seed: u64, _tier: Tier) -> E2eCase {
        gen_timeout_case(seed)
    }

    fn execute(&self, case: &E2eCase) -> Outcome {
        E2eSim.execute(case)
    }

    fn shrink(&self, case: &E2eCase) -> Vec<E2eCase> {
        shrink_e2e(case).into_iter().filter(|c| c.client.timeout_ms.is_some()).collect()
    }
}

impl Scenario for E2eIdleSim {
    type Case = E2eCase;

    fn engine(&self) -> &'static str {
        "e2eidle"
    }

    fn info(&self) -> ScenarioInfo {
        ScenarioInfo {
            rule: "the e2esim world (real Client built through Client::builder() in every order of the builder calls, real servers, SimNet) with a workload for C15: a burst of 2..6 concurrent HTTP/1.1 requests to one origin, max_idle_per_host in {0, 1, 2, k-1, k, k+1}, no faults and no cancels; 100 ms of virtual time after the last response the connections the client still holds open are counted. Oracle: at most max_idle_per_host of them. distinct = (k, max_idle, builder order).".into(),
            real: E2eSim.info().real,
            stub: E2eSim.info().stub,
            assumptions: vec!["complements the pool-level check: this part sees what the builder hands to the pool".into()],
        }
    }

    fn num_cases(&self, tier: Tier) -> (u64, u64) {
        (0, if tier == Tier::Quick { 1500 } else { 100_000 })
    }

    fn case(&self, _index: u64, seed: u64, _tier: Tier) -> E2eCase {
        gen_idle_case(seed)
    }

    fn execute(&self, case: &E2eCase) -> Outcome {
        let mut out = E2eSim.execute(case);
        let mut sig = Digest::default();
        sig.push(case.requests.len() as u64);
        sig.push(case.client.max_idle as u64);
        sig.push(case.client.order as u64);
        out.abstract_sig = sig.0;
        out.nontrivial = true;
        out
    }

    fn shrink(&self, case: &E2eCase) -> Vec<E2eCase> {
        let mut v = vec![];
        if case.client.order != 0 {
            for bit in 0..5 {
                if case.client.order & (1 << bit) != 0 {
                    let mut c = case.clone();
                    c.client.order &= !(1 << bit);
                    v.push(c);
                }
            }
        }
        for i in 0..case.requests.len() {
            if case.requests.len() > case.client.max_idle + 1 {
                let mut c = case.clone();
                c.requests.remove(i);
                v.push(c);
            }
        }
        v
    }
}

const METHODS: [&str; 6] = ["GET", "POST", "PUT", "DELETE", "PATCH", "OPTIONS"];
const TAILS: [&str; 7] = ["", "a", "a/b/c", "%20x", "index.html", "a//b", "~user"];
const QUERIES: [&str; 5] = ["", "x=1", "a=b&c=d", "q=%2F%3F", "k"];

pub fn gen_origins(r: &mut Rng, n: usize) -> Vec<OriginCfg> {
    let mut pool = vec!["http://a.test", "https://a.test", "http://a.test:8080", "http://b.test", "https://b.test:8443"];
    let mut v = vec![];
    for _ in 0..n {
        let i = r.usize_below(pool.len());
        let uri = pool.remove(i).to_string();
        let tls = uri.starts_with("https");
        let proto = *r.weighted(&[(5, ServerProto::Auto), (2, ServerProto::H1), (2, ServerProto::H2)]);
        let alpn_h2 = match proto {
            ServerProto::H1 => false,
            ServerProto::H2 => true,
            ServerProto::Auto => r.bool(),
        };
        v.push(OriginCfg { uri, proto, tls, alpn_h2 });
    }
    v
}

pub fn gen_request(r: &mut Rng, id: u32, origins: &[OriginCfg], client_alpn_h2: bool, horizon_ms: u64) -> ReqPlan {
    let origin = r.usize_below(origins.len());
    let o = &origins[origin];
    // a request version the server of this origin can actually speak
    let negotiated_h2 = o.tls && o.alpn_h2 && client_alpn_h2;
    let ver = match o.proto {
        ServerProto::H1 => *r.pick(&[Ver::H11, Ver::H11, Ver::H10]),
        ServerProto::H2 => {
            if negotiated_h2 {
                *r.pick(&[Ver::H2, Ver::H11])
            } else {
                Ver::H2
            }
        }
        ServerProto::Auto => *r.pick(&[Ver::H11, Ver::H2, Ver::H11, Ver::H10]),
    };
    let method = r.pick(&METHODS).to_string();
    let body_len = if method == "GET" || method == "DELETE" || method == "OPTIONS" {
        *r.weighted(&[(5, 0usize), (1, 10)])
    } else {
        *r.weighted(&[(1, 0usize), (3, 1), (3, 100), (3, 3000), (2, 20000), (1, 65536)])
    };
    let resp_len = *r.weighted(&[(1, 0usize), (2, 1), (3, 100), (3, 3000), (2, 20000), (1, 65536)]);
    let q = *r.pick(&QUERIES);
    // one-byte frames are interesting for small bodies only (64 KiB of them costs seconds of real time)
    let chunk_for = |r: &mut Rng, len: usize| -> usize {
        if len > 3000 {
            *r.pick(&[100usize, 1000, 16384, 70000])
        } else {
            *r.pick(&[1usize, 7, 100, 1000, 16384, 70000])
        }
    };
    let body_chunk = chunk_for(r, body_len);
    let resp_chunk = chunk_for(r, resp_len);
    ReqPlan {
        id,
        origin,
        method,
        ver,
        path_tail: r.pick(&TAILS).to_string(),
        path_form: *r.weighted(&[(10, 0u8), (1, 1), (1, 2)]),
        redirect: None,
        user_agent: if r.chance(1, 5) { Some(format!("caller/{}", id)) } else { None },
        host_header: if Rng::keyed(id as u64 * 7919 + r.below(1 << 30), "e2e/host").chance(1, 6) { Some(format!("tenant-{}.example", id)) } else { None },
        te_trailers: r.chance(1, 5),
        req_trailers: Rng::keyed(id as u64 * 104729 + r.below(1 << 30), "e2e/trailers").chance(1, 4),
        query: if q.is_empty() { None } else { Some(q.to_string()) },
        extra: if r.bool() { Some(format!("v{}", r.below(1000))) } else { None },
        body_len,
        body_chunk,
        body_delay_ms: *r.weighted(&[(3, 0u64), (1, 1), (1, 5)]),
        start_ms: r.below(horizon_ms),
        cancel_at_ms: None,
        read: *r.weighted(&[(6, ReadMode::Full), (2, ReadMode::Slow), (1, ReadMode::DropBody)]),
        upgrade: false,
        handler: HandlerPlan {
            delay_ms: *r.weighted(&[(3, 0u64), (2, 2), (1, 20)]),
            resp_len,
            resp_chunk,
            resp_delay_ms: *r.weighted(&[(3, 0u64), (1, 1), (1, 5)]),
            fail: false,
            upgrade: false,
            redirect: None,
            resp_trailers: Rng::keyed(id as u64 * 104723 + r.below(1 << 30), "e2e/resp-trailers").chance(1, 4),
        },
    }
}

fn gen_case(seed: u64) -> E2eCase {
    let mut r = Rng::keyed(seed, "e2e/case");
    let n_origins = *r.weighted(&[(5, 1usize), (3, 2), (1, 3)]);
    let origins = gen_origins(&mut r, n_origins);
    let client = ClientCfg {
        pool: r.chance(9, 10),
        idle_timeout_ms: *r.weighted(&[(2, None), (1, Some(20)), (3, Some(90_000))]),
        max_idle: *r.weighted(&[(6, 32usize), (1, 1), (1, 0)]),
        continue_after_preemption: r.bool(),
        alpn_h2: r.bool(),
        timeout_ms: None,
        order: r.below(24) as u8,
        busy: *Rng::keyed(seed, "e2e/busy").weighted(&[(3, 0u8), (1, 1), (1, 3)]),
    };
    let faulty = r.chance(2, 3);
    let n = r.range(1, 10) as u32;
    let horizon = *r.pick(&[1u64, 5, 30, 100]);
    let mut requests = vec![];
    for id in 0..n {
        let mut p = gen_request(&mut r, id, &origins, client.alpn_h2, horizon);
        // waves: later requests start after earlier ones had time to finish
        if r.chance(1, 3) {
            p.start_ms += *r.pick(&[50u64, 200, 100_000]);
        }
        if faulty && r.chance(1, 4) {
            p.cancel_at_ms = Some(p.start_ms + *r.pick(&[0u64, 1, 2, 5, 10, 30]));
        }
        // upgrades only make sense over HTTP/1.1 without a body
        let o = &origins[p.origin];
        let may_h2 = p.ver == Ver::H2 || (o.tls && o.alpn_h2 && client.alpn_h2) || o.proto == ServerProto::H2;
        if !may_h2 && p.ver == Ver::H11 && r.chance(1, 8) {
            p.upgrade = true;
            p.handler.upgrade = true;
            p.method = "GET".into();
            p.body_len = 0;
        }
        // the origin's server redirects this request (to itself or to another origin)
        // (the follow-up request keeps the version of the original, so the target must speak it)
        let speaks = |o: &OriginCfg, v: Ver| match o.proto {
            ServerProto::H1 => v != Ver::H2 && !(o.tls && o.alpn_h2 && client.alpn_h2),
            ServerProto::H2 => v == Ver::H2 || (o.tls && o.alpn_h2 && client.alpn_h2),
            ServerProto::Auto => true,
        };
        let targets: Vec<usize> = (0..origins.len()).filter(|i| speaks(&origins[*i], p.ver)).collect();
        if !p.upgrade && p.path_form == 0 && !targets.is_empty() && r.chance(1, 6) {
            p.redirect = Some(RedirectPlan { status: *r.pick(&[301u16, 302, 303, 307, 308]), to_origin: *r.pick(&targets) });
            if r.chance(1, 2) {
                p.body_len = 0; // so that 307 / 308 and non-POST 301 / 302 can be followed as well
            }
        }
        requests.push(p);
    }
    let mut net = NetPlan::plain();
    net.io_faulty = r.chance(2, 3);
    net.connect_latency_ms = (0..4).map(|_| *r.pick(&[0u64, 0, 1, 5, 20])).collect();
    if faulty {
        let k = r.below(3);
        for _ in 0..k {
            net.faults.push(ConnFault {
                conn: r.below(4) as u32,
                dir: *r.pick(&[Dir::C2S, Dir::S2C]),
                kind: *r.pick(&[FaultKind::Eof, FaultKind::Reset]),
                at: *r.pick(&[0u64, 1, 10, 24, 40, 100, 500, 5000, 30000]),
            });
        }
        if r.chance(1, 6) {
            net.dial_fates.push((r.below(3) as u32, DialFate::Refuse));
        }
    }
    E2eCase { seed, origins, client, requests, net }
}

pub struct AbortOnDrop(pub tokio::task::JoinHandle<()>);
impl Drop for AbortOnDrop {
    fn drop(&mut self) {
        self.0.abort();
    }
}

pub struct RunResult {
    pub recs: BTreeMap<u32, RRec>,
    pub log: HandlerLog,
    pub net: Network,
    pub server_results: Vec<Option<Result<(), String>>>,
    pub exec: SimExecutor,
    pub end_ms: u64,
    /// the run was cut short because peers busy-polled each other for seconds of virtual time
    pub runaway: bool,
    /// ended because no stream was touched for two minutes of virtual time
    pub stalled: bool,
    /// ids of the connections the client still held open 100 ms after the last request had
    /// finished (measured only when no request was cancelled or left pending); None = not measured
    pub open_after_quiescence: Option<Vec<u32>>,
}

/// Run servers + client requests of a case to quiescence (or the horizon).
pub fn run_world(case: &E2eCase, horizon_s: u64) -> (RunResult, Vec<simrt::PanicRec>) {
    simrt::install_panic_hook();
    let _ = simrt::take_panics();
    let rt = simrt::runtime();
    let local = tokio::task::LocalSet::new();
    let result = std::panic::catch_unwind(std::panic::AssertUnwindSafe(|| {
        local.block_on(&rt, async {
            crate::net::reset_ops();
            let pump = tokio::task::spawn_local(crate::net::time_pump());
            let _pump_guard = AbortOnDrop(pump);
            let net = Network::new(case.seed, case.net.clone());
            let log = Arc::new(Mutex::new(HandlerLog::default()));
            let plans: Arc<BTreeMap<u32, HandlerPlan>> = Arc::new(
                case.requests
                    .iter()
                    .map(|p| {
                        let mut h = p.handler.clone();
                        if let Some(r) = &p.redirect {
                            if let Some(to) = case.origins.get(r.to_origin) {
                                h.redirect = Some((r.status, redirect_location(&to.uri, p)));
                            }
                        }
                        (p.id, h)
                    })
                    .collect(),
            );
            let exec = SimExecutor::default();
            let mut servers = vec![];
            for o in &case.origins {
                let acc = net.listen(&o.uri);
                let tls = if o.tls {
                    let alpn: &[&str] = if o.alpn_h2 { &["h2", "http/1.1"] } else { &["http/1.1"] };
                    Some(tlsfix::server_config(tlsfix::CertKind::Good, alpn))
                } else {
                    None
                };
                let ctx = HandlerCtx { net: net.clone(), log: log.clone(), plans: plans.clone(), origin: o.uri.clone() };
                servers.push(tokio::task::spawn_local(run_server(acc, o.proto, tls, ctx, exec.clone(), None)));
            }
            let any_tls = case.origins.iter().any(|o| o.tls);
            let svc = build_client(&net, &case.client, any_tls);
            let recs = Arc::new(Mutex::new(BTreeMap::new()));
            let mut tasks = vec![];
            for p in &case.requests {
                let origin = case.origins[p.origin].uri.clone();
                let target = p.redirect.as_ref().and_then(|r| case.origins.get(r.to_origin)).map(|o| o.uri.clone());
                tasks.push(tokio::task::spawn_local(run_request_to(net.clone(), svc.clone(), origin, target, case.client.follows_redirects(), p.clone(), recs.clone())));
            }
            let all = async {
                for t in tasks {
                    let _ = t.await;
                }
            };
            let runaway = crate::net::runaway_signal();
            // A run ends when every request ended, or when nothing touched any stream for two minutes
            // of virtual time (a hang), or - not a verdict - at the horizon / runaway cut-off. A slow
            // network (one byte per operation, each delayed) is not a hang however long it takes.
            let mut stalled = false;
            {
                tokio::pin!(all);
                let started = tokio::time::Instant::now();
                let mut last_ops = crate::net::moved();
                let mut quiet = 0u32;
                loop {
                    tokio::select! {
                        biased;
                        _ = &mut all => break,
                        _ = runaway.notified() => break,
                        _ = tokio::time::sleep(Duration::from_secs(60)) => {
                            let ops = crate::net::moved();
                            if ops == last_ops { quiet += 1 } else { quiet = 0 }
                            last_ops = ops;
                            if quiet >= 2 { stalled = true; break }
                            if started.elapsed() >= Duration::from_secs(horizon_s) { break }
                        }
                    }
                }
            }
            let end_ms = net.now_ms();
            // C15 through the builder: what the pool retains once everything is quiet
            let quiet = !stalled && !crate::net::is_runaway() && case.requests.iter().all(|p| p.cancel_at_ms.is_none()) && {
                let r = recs.lock();
                case.requests.iter().all(|p| matches!(r.get(&p.id).map(|x: &RRec| &x.outcome), Some(ROutcome::Ok) | Some(ROutcome::Err(..)) | Some(ROutcome::Wrong(_))))
            };
            let open_after_quiescence = if quiet && case.client.pool {
                tokio::time::sleep(Duration::from_millis(100)).await;
                let n = net.inner.lock();
                Some(
                    n.conns
                        .iter()
                        .filter(|c| c.established_ms.is_some())
                        .filter(|c| c.c2s.as_ref().map(|p| { let p = p.lock(); !p.is_eof() && !p.is_reset() }).unwrap_or(false))
                        .filter(|c| c.s2c.as_ref().map(|p| { let p = p.lock(); !p.is_eof() && !p.is_reset() }).unwrap_or(false))
                        .map(|c| c.id)
                        .collect::<Vec<u32>>(),
                )
            } else {
                None
            };
            drop(svc);
            let mut server_results = vec![];
            for s in servers {
                if s.is_finished() {
                    server_results.push(Some(s.await.map_err(|e| e.to_string()).and_then(|r| r.map_err(|e| e.to_string()))));
                } else {
                    s.abort();
                    server_results.push(None);
                }
            }
            let recs = recs.lock().clone();
            let log = std::mem::take(&mut *log.lock());
            RunResult { recs, log, net, server_results, exec, end_ms, runaway: crate::net::is_runaway(), stalled, open_after_quiescence }
        })
    }));
    drop(local);
    drop(rt);
    let panics = simrt::take_panics();
    match result {
        Ok(r) => (r, panics),
        Err(_) => {
            // a panic escaped to the driver: report through the panic list with an empty result
            let rt = simrt::runtime();
            let net = rt.block_on(async { Network::new(case.seed, NetPlan::plain()) });
            (
                RunResult { recs: BTreeMap::new(), log: HandlerLog::default(), net, server_results: vec![], exec: SimExecutor::default(), end_ms: 0, runaway: false, stalled: false, open_after_quiescence: None },
                panics,
            )
        }
    }
}

pub fn panic_violations(panics: &[simrt::PanicRec], out: &mut Outcome) {
    for p in panics {
        if p.in_harness() {
            out.harness_error = Some(format!("panic in harness code: {} at {}", p.message, p.location()));
        } else {
            let msg: String = p.message.chars().take(80).collect();
            out.violations.push(Violation::new(
                "C17",
                "panic",
                json!({"location": p.location()}),
                format!("panic: {} at {}", msg, p.location()),
            ));
        }
    }
}

/// Was a transport-level fault active on any connection of this origin while the request was in flight?
fn excused(case: &E2eCase, res: &RunResult, p: &ReqPlan, rec: &RRec) -> Option<&'static str> {
    let n = res.net.inner.lock();
    let okey = origin_key(&case.origins[p.origin].uri.parse::<http::Uri>().unwrap());
    // (a redirected request also depends on the connections of the origin it is sent on to)
    let tkey = p.redirect.as_ref().and_then(|r| case.origins.get(r.to_origin)).map(|o| origin_key(&o.uri.parse::<http::Uri>().unwrap()));
    for c in &n.conns {
        if c.origin != okey && Some(&c.origin) != tkey.as_ref() {
            continue;
        }
        if c.fate != DialFate::Ok {
            return Some("dial_fault");
        }
        for pipe in [&c.c2s, &c.s2c].into_iter().flatten() {
            if !pipe.lock().stats.faults_fired.is_empty() {
                return Some("connection_broken_by_peer");
            }
        }
    }
    let _ = rec;
    None
}

impl Scenario for E2eSim {
    type Case = E2eCase;

    fn engine(&self) -> &'static str {
        "e2esim"
    }

    fn info(&self) -> ScenarioInfo {
        ScenarioInfo {
            rule: "1-10 requests (unique id in path, header and body pattern; methods, paths, queries, versions 1.0/1.1/2, bodies 0..64 KiB streamed in drawn chunks with virtual delays) against 1-3 origins, each a real hyperdriver Server (auto / http1 / http2, plain or TLS with ALPN) on the simulated network; one shared client stack with drawn pool config; start and cancel instants, handler delays, response chunking, slow / dropped body reads, upgrades; SimNet draws chunking, Pending, delays and pipe capacity per connection and injects EOF/reset at byte offsets and refused dials in faulty runs. Non-trivial: >=2 requests and (a connection served >=2 requests, or a cancel, or a fault fired). distinct = hash of per-request (version, origin ordinal, outcome class, connection ordinal) plus the order of handler events.".into(),
            real: vec![
                "client::Builder::build_service stack: Timeout, SetRequestHeader, IncomingResponse, ConnectionPoolService, SetHostHeader, Http2Checks, Http1Checks, RequestExecutor",
                "HttpConnectionBuilder / HttpConnection (hyper client conn drivers), TlsTransport + client TlsStream, TokioIo",
                "Server, Serving, GracefulShutdown, Acceptor (+TLS), server TlsStream, auto::Builder / ReadVersion / Rewind / Connecting, ConnectionDriver, IncomingRequestService, Body",
                "hyper 1.6, h2 0.4, rustls 0.23 + tokio-rustls (exercised, not verified)",
            ],
            stub: vec!["network (SimNet pipes, simulated dial)", "request handler and client tasks (harness)", "DNS / TCP / Unix sockets (not run)"],
            assumptions: vec![
                "a request may fail without blame only if it was cancelled, or a transport fault fired on a connection of its origin; wrong or truncated data is never excused",
                "TLS record contents are not part of the determinism criterion (key-exchange randomness has no seam); record lengths are",
            ],
        }
    }

    fn num_cases(&self, tier: Tier) -> (u64, u64) {
        match tier {
            Tier::Quick => (0, 3_000),
            Tier::Thorough => (0, 200_000),
        }
    }

    fn case(&self, _index: u64, seed: u64, _tier: Tier) -> E2eCase {
        gen_case(seed)
    }

    fn execute(&self, case: &E2eCase) -> Outcome {
        let mut out = Outcome::default();
        let (res, panics) = run_world(case, 6 * 3600);
        panic_violations(&panics, &mut out);
        if let Some(m) = crate::net::take_spin() {
            out.violations.push(Violation::new("C01", "spins_after_end_of_stream", json!({"kind": "busy_loop"}), format!("a reader in the library keeps reading a closed connection in a loop without yielding: {}", m)));
        }
        if std::env::var("VERIF_TRACE").is_ok() {
            for (id, r) in &res.recs {
                eprintln!("client req {}: {:?} start={} head={:?} end={:?} conn={:?} status={:?}", id, r.outcome, r.start_ms, r.head_ms, r.end_ms, r.conn, r.status);
            }
            for s in &res.log.seen {
                eprintln!("handler: {:?}", s);
            }
            eprintln!("upgraded conns {:?} echo bytes {} runaway {} end_ms {}", res.log.upgraded_conns, res.log.echo_bytes, res.runaway, res.end_ms);
            for c in &res.net.inner.lock().conns {
                eprintln!("conn {} origin {} by {:?} fate {:?} dial {} est {:?} c2s {:?} s2c {:?}", c.id, c.origin, c.dialed_by, c.fate, c.dial_start_ms, c.established_ms,
                    c.c2s.as_ref().map(|p| { let p = p.lock(); (p.written, p.read, p.is_eof(), p.is_reset()) }),
                    c.s2c.as_ref().map(|p| { let p = p.lock(); (p.written, p.read, p.is_eof(), p.is_reset()) }));
            }
        }
        let (netlog, any_fault) = net_counters(&res.net, &mut out);
        let mut log = Digest(netlog);
        let mut sig = Digest::default();
        let viols: std::cell::RefCell<Vec<Violation>> = std::cell::RefCell::new(vec![]);
        let viol = |rule: &str, sigv: serde_json::Value, detail: String| {
            viols.borrow_mut().push(Violation::new("C01", rule, sigv, detail));
        };

        // ---- server side: every request the handler saw must be intact and correctly attributed
        let mut conn_requests: BTreeMap<u32, u32> = BTreeMap::new();
        for s in &res.log.seen {
            *conn_requests.entry(s.conn).or_insert(0) += 1;
            log.push(s.id as u64);
            log.push(s.start_ms);
            sig.push(0x100 + s.id as u64);
            if let Some(pb) = &s.problem {
                viol("request_corrupted", json!({"kind": "handler_saw_wrong_request"}), pb.clone());
            }
            let Some(p) = case.requests.iter().find(|p| p.id == s.id) else {
                viol("unknown_request", json!({"kind": "unknown_id"}), format!("handler saw a request with unknown id {} target {}", s.id, s.target));
                continue;
            };
            // what this arrival must look like: the request as sent (hop 0) or its redirected form (hop 1)
            let followed = p.redirect.as_ref().and_then(|r| redirect_outcome(case.client.follows_redirects(), r.status, &p.method, p.body_len).map(|m| (r, m)));
            let (exp_origin, exp_method, exp_pq, exp_body): (String, String, String, usize) = match (s.hop, &followed) {
                (1, Some((r, m))) => {
                    let to = &case.origins[r.to_origin.min(case.origins.len() - 1)].uri;
                    let loc: http::Uri = redirect_location(to, p).parse().unwrap();
                    (to.clone(), m.clone(), loc.path_and_query().map(|x| x.as_str().to_string()).unwrap_or_default(), 0)
                }
                (1, None) => {
                    viol("request_corrupted", json!({"kind": "unexpected_redirect_followed"}), format!("request {} ({} with {} body bytes) was redirected with {:?}, which cannot be followed, but a follow-up request reached {}", p.id, p.method, p.body_len, p.redirect, s.origin));
                    continue;
                }
                _ => {
                    let u: http::Uri = request_uri(&case.origins[p.origin].uri, p).parse().unwrap();
                    let pq = u.path_and_query().map(|x| x.as_str().to_string()).unwrap_or_default();
                    // an empty path is sent as "/"
                    (case.origins[p.origin].uri.clone(), p.method.clone(), if pq.is_empty() || pq.starts_with('?') { format!("/{}", pq) } else { pq }, p.body_len)
                }
            };
            let okey = origin_key(&exp_origin.parse::<http::Uri>().unwrap());
            if origin_key_str(&s.origin) != okey {
                viol("misrouted", json!({"kind": "wrong_server"}), format!("request {} (hop {}) for {} was handled by the server of {}", p.id, s.hop, okey, s.origin));
            }
            if s.method != exp_method {
                viol("request_corrupted", json!({"kind": "method"}), format!("request {} (hop {}) must arrive as {} but handler saw {}", p.id, s.hop, exp_method, s.method));
            }
            if s.extra != p.extra {
                viol("request_corrupted", json!({"kind": "header"}), format!("request {} sent x-extra {:?} but handler saw {:?}", p.id, p.extra, s.extra));
            }
            // a caller-supplied User-Agent is kept, otherwise the library's default is present
            match (&p.user_agent, &s.user_agent) {
                (Some(want), got) if got.as_deref() != Some(want.as_str()) => {
                    viol("request_corrupted", json!({"kind": "user_agent"}), format!("request {} sent User-Agent {:?} but handler saw {:?}", p.id, want, got));
                }
                (None, None) => viol("request_corrupted", json!({"kind": "user_agent"}), format!("request {} arrived without any User-Agent (the client adds a default one)", p.id)),
                _ => {}
            }
            // a Host header supplied by the caller is not overridden (HTTP/1; HTTP/2 carries none)
            if let (Some(want), true, 0) = (&p.host_header, s.version != http::Version::HTTP_2, s.hop) {
                if s.host.as_deref() != Some(want.as_str()) {
                    viol("request_corrupted", json!({"kind": "host_header"}), format!("request {} sent Host {:?} but the handler saw {:?} (connection {:?})", p.id, want, s.host, s.version));
                }
            }
            // trailers of the request body (HTTP/2 always carries them; a followed redirect replays the body without them)
            if s.body_done_ms.is_some() && !p.upgrade && p.redirect.is_none() {
                let want = infra::trailers_digest(&infra::trailers_for(p.id, false));
                match (&s.req_trailers, p.req_trailers) {
                    (Some(g), true) if *g != want => viol("request_corrupted", json!({"kind": "trailers"}), format!("request {} sent trailers {:?} but the handler saw {:?}", p.id, want, g)),
                    (None, true) if s.version == http::Version::HTTP_2 => viol("request_corrupted", json!({"kind": "trailers"}), format!("request {} sent trailers after its body but the handler's body ended without them (HTTP/2 connection)", p.id)),
                    (Some(g), false) => viol("request_corrupted", json!({"kind": "trailers"}), format!("request {} sent no trailers but the handler saw {:?}", p.id, g)),
                    _ => {}
                }
            }
            if p.te_trailers && !p.upgrade && s.te.as_deref() != Some("trailers") {
                viol("request_corrupted", json!({"kind": "te_header"}), format!("request {} ({:?}) sent `te: trailers` but the handler saw TE {:?} (connection {:?})", p.id, p.ver, s.te, s.version));
            }
            let seen_pq = s.target.parse::<http::Uri>().ok().and_then(|u| u.path_and_query().map(|x| x.as_str().to_string())).unwrap_or_default();
            if seen_pq != exp_pq {
                viol("request_corrupted", json!({"kind": "target"}), format!("request {} (hop {}) sent target {} but handler saw {}", p.id, s.hop, exp_pq, s.target));
            }
            if s.body_done_ms.is_some() && s.body_len != exp_body && !p.upgrade {
                viol("request_corrupted", json!({"kind": "body_len"}), format!("request {} (hop {}) sent {} body bytes, handler read {}", p.id, s.hop, exp_body, s.body_len));
            }
            // after a redirect the Host header names the new authority (HTTP/1; HTTP/2 has none)
            if s.hop == 1 && s.version != http::Version::HTTP_2 && p.host_header.is_none() {
                let u: http::Uri = exp_origin.parse().unwrap();
                let default_port = if u.scheme_str().map(|x| x.eq_ignore_ascii_case("https")).unwrap_or(false) { 443 } else { 80 };
                let want = match u.port_u16() {
                    Some(pt) if pt != default_port => format!("{}:{}", u.host().unwrap_or(""), pt),
                    _ => u.host().unwrap_or("").to_string(),
                };
                if s.host.as_deref().map(|h| h.to_ascii_lowercase()) != Some(want.to_ascii_lowercase()) {
                    viol("request_corrupted", json!({"kind": "host_after_redirect"}), format!("request {} redirected to {} carried Host {:?}, expected {:?}", p.id, exp_origin, s.host, want));
                }
            }
        }
        if res.log.unready_calls > 0 {
            viol("service_called_before_ready", json!({"kind": "tower_contract"}), format!("{} request(s) were handed to a per-connection service that had not been driven to readiness (poll_ready) first; a concurrency-limited or buffered service fails them", res.log.unready_calls));
        }
        // a connection taken over by an upgrade never serves another request
        for (c, idx) in &res.log.upgrade_seen_index {
            let later = res.log.seen[*idx..].iter().filter(|s| s.conn == *c).count();
            if later > 0 {
                viol("upgraded_connection_reused", json!({"kind": "upgrade"}), format!("server connection {} handled {} more request(s) after it had been upgraded", c, later));
            }
        }
        // the same request must not be handled twice (there is no retry layer)
        let mut handled: BTreeMap<u32, u32> = BTreeMap::new();
        for s in &res.log.seen {
            *handled.entry(s.id).or_insert(0) += 1;
        }
        for (id, n) in &handled {
            let hops = case.requests.iter().find(|p| p.id == *id).map(|p| if p.redirect.as_ref().and_then(|r| redirect_outcome(case.client.follows_redirects(), r.status, &p.method, p.body_len)).is_some() { 2 } else { 1 }).unwrap_or(1);
            if *n > hops {
                viol("handled_twice", json!({"kind": "duplicate"}), format!("request {} reached the handler {} times", id, n));
            }
        }

        // ---- C19 end to end: with a client timeout T every request resolves - response head, error
        // or the timeout error - no later than T after it was issued (whatever happens below the
        // timeout layer: pool stages, redirects, slow handlers)
        if let Some(t) = case.client.timeout_ms {
            let pumped = crate::net::pumped_ms();
            for p in &case.requests {
                let Some(rec) = res.recs.get(&p.id) else { continue };
                let resolved = match &rec.outcome {
                    ROutcome::Err(_, at) => Some(*at),
                    ROutcome::Ok | ROutcome::Wrong(_) => rec.head_ms,
                    _ => None,
                };
                if let Some(at) = resolved {
                    if at > rec.start_ms + t + pumped {
                        out.violations.push(Violation::new(
                            "C19",
                            "resolved_after_deadline",
                            json!({"redirected": p.redirect.is_some()}),
                            format!("request {} was issued at {} ms with a {} ms timeout but only resolved at {} ms ({:?})", p.id, rec.start_ms, t, at, rec.outcome),
                        ));
                    }
                    if matches!(&rec.outcome, ROutcome::Err(k, _) if k == "timeout") {
                        out.count("probe.request_timed_out");
                        // "at expiry the inner work is dropped": hyper closes an HTTP/1 connection whose
                        // exchange in progress is abandoned, so if the server had not even produced the
                        // response when the deadline fired, that connection can never carry a later
                        // request - unless the exchange was kept running behind the caller's back
                        if !p.upgrade {
                            if let Some(last) = res.log.seen.iter().filter(|s| s.id == p.id).max_by_key(|s| (s.hop, s.start_ms)) {
                                let in_flight = last.version != http::Version::HTTP_2 && last.responded_ms.map(|r| r > at + pumped + 1).unwrap_or(true);
                                if in_flight {
                                    out.count("probe.timeout_during_http1_exchange");
                                    if let Some(next) = res.log.seen.iter().find(|s2| s2.conn == last.conn && s2.origin == last.origin && s2.id != p.id && s2.start_ms >= at) {
                                        out.violations.push(Violation::new(
                                            "C19",
                                            "timed_out_exchange_ran_on",
                                            json!({"kind": "e2e"}),
                                            format!(
                                                "request {} timed out at {} ms while its HTTP/1 exchange on connection {} was in progress (handler answered: {:?}); the connection later carried request {} (at {} ms): the abandoned exchange was completed instead of dropped",
                                                p.id, at, last.conn, last.responded_ms, next.id, next.start_ms
                                            ),
                                        ));
                                    }
                                }
                            }
                        }
                        if at < rec.start_ms + t {
                            out.violations.push(Violation::new("C19", "timeout_too_early", json!({"kind": "e2e"}), format!("request {} timed out at {} ms, issued at {} ms with a {} ms timeout", p.id, at, rec.start_ms, t)));
                        }
                    }
                }
            }
        }

        // ---- client side
        let mut cancels = 0;
        let mut reused = conn_requests.values().any(|n| *n >= 2);
        for p in &case.requests {
            let Some(rec) = res.recs.get(&p.id) else { continue };
            let cls = match &rec.outcome {
                ROutcome::Ok => 1u64,
                ROutcome::Err(..) => 2,
                ROutcome::Cancelled(..) => 3,
                ROutcome::Wrong(_) => 4,
                ROutcome::Pending => 5,
                ROutcome::NotStarted => 6,
            };
            sig.push(p.ver as u64 * 64 + p.origin as u64 * 8 + cls);
            sig.push(rec.conn.map(|c| c as u64).unwrap_or(99));
            log.push(cls);
            log.push(rec.end_ms.unwrap_or(0));
            match &rec.outcome {
                ROutcome::Ok => out.count("probe.request_ok"),
                ROutcome::Wrong(w) => viol("response_mismatch", json!({"kind": "wrong_response"}), w.clone()),
                ROutcome::Cancelled(stage, _) => {
                    cancels += 1;
                    let served = res.log.seen.iter().find(|s| s.id == p.id);
                    let st = match (stage, served) {
                        (&"before_head", None) => {
                            if *rec.body_progress.lock() > 0 { "request_body" } else { "before_handler" }
                        }
                        (&"before_head", Some(s)) if s.responded_ms.is_none() => "in_handler",
                        (&"before_head", Some(_)) => "response_head",
                        (s, _) => s,
                    };
                    out.count(&format!("fault.cancel_{}", st));
                }
                ROutcome::Err(kind, _) => {
                    let handler_failed = p.handler.fail;
                    match excused(case, &res, p, rec) {
                        Some(why) => out.count(&format!("probe.request_failed_excused_{}", why)),
                        None if handler_failed => out.count("probe.request_failed_handler_error"),
                        None => {
                            // C02 seen end to end (the real HttpConnection, which the pool checks stub): in a
                            // fault-free run a request that hyper refused on the spot ("not ready" / cancelled,
                            // never reaching a handler) while another request's HTTP/1 exchange with the same
                            // origin was in progress was handed that busy connection
                            let refused = (kind.contains("not ready") || kind.contains("canceled")) && !res.log.seen.iter().any(|s| s.id == p.id);
                            let failed_at = rec.end_ms.unwrap_or(0);
                            let busy_peer = case.requests.iter().find(|q| {
                                q.id != p.id
                                    && q.origin == p.origin
                                    && res.log.seen.iter().any(|s| s.id == q.id && s.version != http::Version::HTTP_2 && s.start_ms <= failed_at)
                                    && res.recs.get(&q.id).map(|r| r.end_ms.map(|e| e >= failed_at).unwrap_or(true) && !matches!(r.outcome, ROutcome::Cancelled(..))).unwrap_or(false)
                            });
                            if let (true, false, Some(q)) = (refused, any_fault, busy_peer) {
                                viols.borrow_mut().push(Violation::new(
                                    "C02",
                                    "busy_connection_handed_out",
                                    json!({"kind": "e2e"}),
                                    format!(
                                        "request {} ({:?} to {}) was refused by hyper at {} ms ({}) without reaching the server, while request {}'s HTTP/1 exchange with the same origin was still in progress: it was given a connection that had not become ready again",
                                        p.id, p.ver, case.origins[p.origin].uri, failed_at, kind, q.id
                                    ),
                                ));
                            }
                            viol(
                            "spurious_failure",
                            json!({"faulty": any_fault}),
                            format!(
                                "request {} ({} {:?} to {}) was not cancelled and no connection of its origin was broken, but it failed: {}",
                                p.id, p.method, p.ver, case.origins[p.origin].uri, kind
                            ),
                        )
                        }
                    }
                }
                ROutcome::Pending if res.runaway => out.count("probe.runaway_run_cut_short"),
                ROutcome::Pending if res.stalled => viol(
                    "never_completes",
                    json!({"kind": "pending_when_world_quiet"}),
                    format!(
                        "request {} ({:?} to {}) neither completed nor failed, and nothing has touched any connection for two minutes of virtual time",
                        p.id, p.ver, case.origins[p.origin].uri
                    ),
                ),
                // still making progress at the horizon (a very slow network): not judged
                ROutcome::Pending => out.count("probe.horizon_reached_while_progressing"),
                ROutcome::NotStarted => {}
            }
        }
        out.violations.extend(viols.into_inner());
        // ---- C15 end to end: with everything finished and nothing cancelled, the client keeps at
        // most max_idle_per_host HTTP/1 connections per origin (a connection that ever carried
        // HTTP/2, an upgrade, or a request that failed is left out)
        if let Some(open) = &res.open_after_quiescence {
            out.count("probe.quiescent_idle_count_measured");
            let n = res.net.inner.lock();
            let mut per_origin: BTreeMap<String, Vec<u32>> = BTreeMap::new();
            for c in n.conns.iter().filter(|c| open.contains(&c.id)) {
                let served: Vec<&Seen> = res.log.seen.iter().filter(|s| s.conn == c.id).collect();
                let clean_h1 = !served.is_empty()
                    && served.iter().all(|s| s.version != http::Version::HTTP_2 && s.responded_ms.is_some() && s.problem.is_none())
                    && !res.log.upgraded_conns.contains(&c.id);
                if clean_h1 {
                    per_origin.entry(c.origin.clone()).or_default().push(c.id);
                }
            }
            drop(n);
            let all_ok = case.requests.iter().all(|p| matches!(res.recs.get(&p.id).map(|r| &r.outcome), Some(ROutcome::Ok)));
            for (o, ids) in per_origin {
                if all_ok && !any_fault && ids.len() > case.client.max_idle {
                    out.violations.push(Violation::new(
                        "C15",
                        "too_many_idle_end_to_end",
                        json!({"max_idle": case.client.max_idle.min(3)}),
                        format!("100 ms after the last request finished the client still holds {} idle HTTP/1 connections {:?} to {}; max_idle_per_host = {} (builder call order {})", ids.len(), ids, o, case.client.max_idle, case.client.order),
                    ));
                }
                if ids.len() == case.client.max_idle && case.client.max_idle > 0 {
                    out.count("probe.idle_limit_reached_exactly_end_to_end");
                }
            }
        }
        // concurrency probe: two requests in flight on one HTTP/2 connection
        let mut by_conn: BTreeMap<u32, Vec<(u64, u64)>> = BTreeMap::new();
        for s in &res.log.seen {
            if s.version == http::Version::HTTP_2 {
                by_conn.entry(s.conn).or_default().push((s.start_ms, s.responded_ms.unwrap_or(u64::MAX)));
            }
        }
        if by_conn.values().any(|v| v.iter().enumerate().any(|(i, a)| v.iter().skip(i + 1).any(|b| a.0 <= b.1 && b.0 <= a.1))) {
            out.count("probe.concurrent_streams_on_one_h2_connection");
        }
        if reused {
            out.count("probe.connection_served_several_requests");
        }
        if res.log.seen.iter().any(|s| s.version == http::Version::HTTP_2 && case.requests.iter().any(|p| p.id == s.id && p.ver != Ver::H2)) {
            out.count("probe.http1_request_carried_on_h2_connection");
        }
        if !res.log.upgraded_conns.is_empty() {
            out.count("probe.upgrade_completed");
        }
        for r in &res.server_results {
            if let Some(r) = r {
                // a serving future that ended on its own is reported by the C09 mode; note it here
                let _ = r;
                out.count("probe.server_future_ended");
            }
        }
        reused |= cancels > 0 || any_fault;
        out.nontrivial = case.requests.len() >= 2 && reused;
        out.faulty = any_fault || cancels > 0 || case.net.io_faulty;
        out.sim_ms = res.end_ms;
        out.abstract_sig = sig.0;
        out.log_digest = log.0;
        out
    }

    fn shrink(&self, case: &E2eCase) -> Vec<E2eCase> {
        shrink_e2e(case)
    }
}

pub fn shrink_e2e(case: &E2eCase) -> Vec<E2eCase> {
    let mut v = vec![];
    for i in 0..case.requests.len() {
        let mut c = case.clone();
        c.requests.remove(i);
        v.push(c);
    }
    for i in 0..case.net.faults.len() {
        let mut c = case.clone();
        c.net.faults.remove(i);
        v.push(c);
    }
    if !case.net.dial_fates.is_empty() {
        let mut c = case.clone();
        c.net.dial_fates.clear();
        v.push(c);
    }
    if case.net.io_faulty {
        let mut c = case.clone();
        c.net.io_faulty = false;
        v.push(c);
    }
    if case.net.connect_latency_ms.iter().any(|l| *l > 0) {
        let mut c = case.clone();
        c.net.connect_latency_ms = vec![0];
        v.push(c);
    }
    if case.origins.len() > 1 {
        // drop an origin nobody uses
        for i in 0..case.origins.len() {
            if !case.requests.iter().any(|r| r.origin == i) {
                let mut c = case.clone();
                c.origins.remove(i);
                for r in c.requests.iter_mut() {
                    if r.origin > i {
                        r.origin -= 1;
                    }
                }
                v.push(c);
            }
        }
    }
    for (i, r) in case.requests.iter().enumerate() {
        if r.cancel_at_ms.is_some() {
            let mut c = case.clone();
            c.requests[i].cancel_at_ms = None;
            v.push(c);
        }
        if r.start_ms > 0 {
            let mut c = case.clone();
            c.requests[i].start_ms = 0;
            v.push(c);
        }
        if r.body_len > 0 {
            let mut c = case.clone();
            c.requests[i].body_len = 0;
            v.push(c);
            if r.body_len > 10 {
                let mut c = case.clone();
                c.requests[i].body_len = 10;
                v.push(c);
            }
        }
        if r.handler.resp_len > 1 {
            let mut c = case.clone();
            c.requests[i].handler.resp_len = 1;
            v.push(c);
        }
        if r.handler.delay_ms > 0 || r.handler.resp_delay_ms > 0 || r.body_delay_ms > 0 {
            let mut c = case.clone();
            c.requests[i].handler.delay_ms = 0;
            c.requests[i].handler.resp_delay_ms = 0;
            c.requests[i].body_delay_ms = 0;
            v.push(c);
        }
        if r.read != ReadMode::Full {
            let mut c = case.clone();
            c.requests[i].read = ReadMode::Full;
            v.push(c);
        }
        if r.path_form != 0 {
            let mut c = case.clone();
            c.requests[i].path_form = 0;
            v.push(c);
        }
        if r.redirect.is_some() {
            let mut c = case.clone();
            c.requests[i].redirect = None;
            v.push(c);
        }
        if r.user_agent.is_some() {
            let mut c = case.clone();
            c.requests[i].user_agent = None;
            v.push(c);
        }
        if r.te_trailers {
            let mut c = case.clone();
            c.requests[i].te_trailers = false;
            v.push(c);
        }
        if r.req_trailers || r.handler.resp_trailers {
            let mut c = case.clone();
            c.requests[i].req_trailers = false;
            c.requests[i].handler.resp_trailers = false;
            v.push(c);
        }
        if r.query.is_some() || !r.path_tail.is_empty() || r.extra.is_some() {
            let mut c = case.clone();
            c.requests[i].query = None;
            c.requests[i].path_tail = String::new();
            c.requests[i].extra = None;
            v.push(c);
        }
    }
    if case.client.idle_timeout_ms.is_some() {
        let mut c = case.clone();
        c.client.idle_timeout_ms = None;
        v.push(c);
    }
    v
}
