//! Engine A `poolsim`: the real connection pool (ConnectionPoolService, Pool, Checkout, Pooled,
//! WhenReady, IdleConnections, Timeout) between stub endpoints, driven one explicit step at a time.
//!
//! A run = random phase (steps drawn by a seeded PRNG from the currently enabled actions, or a
//! recorded step list on replay) -> drain phase (no more faults; everything outstanding resolves)
//! -> probe phase (one fresh request per origin). Oracles for C02-C06, C14, C15, C17, C19.

pub mod world;

use std::collections::BTreeMap;
use std::future::Future;
use std::panic::{catch_unwind, AssertUnwindSafe};
use std::pin::Pin;
use std::sync::atomic::{AtomicBool, AtomicU32, Ordering};
use std::sync::Arc;
use std::task::{Context, Poll, Wake, Waker};
use std::time::Duration;

use hyperdriver::client::pool::Config as PoolConfig;
use hyperdriver::client::{ConnectionPoolService, Error as ClientError};
use hyperdriver::service::{RequestExecutor, Timeout};
use parking_lot::Mutex;
use serde::{Deserialize, Serialize};
use serde_json::json;
use tower::Service;

use crate::framework::{Outcome, Scenario, ScenarioInfo, Tier, Violation};
use crate::rng::{Digest, Rng};
use crate::simrt;
use world::*;

type PoolSvc = ConnectionPoolService<SimTransport, SimProtocol, RecSvc, SimBody>;
type BoxFut = Pin<Box<dyn Future<Output = Result<http::Response<SimBody>, ClientError>>>>;

const ORIGINS: [&str; 16] = [
    "http://a.test",
    "https://a.test",
    "http://a.test:8080",
    "http://A.TEST",
    "http://b.test",
    "http://a.test:80",
    // with user information: same host, two more ports
    "http://u:p@a.test:9090",
    "http://u@a.test:7070",
    // the websocket schemes: same host, with and without ports
    "ws://a.test:8001",
    "ws://a.test:8002",
    "wss://a.test:9443",
    "wss://a.test",
    // CONNECT targets in authority-form (no scheme: such a request names no origin at all), next
    // to the origins a guessed scheme would make of them
    "a.test:443",
    "https://a.test:443",
    "a.test:8081",
    "http://a.test:8081",
];

#[derive(Clone, Copy, Debug, Serialize, Deserialize, PartialEq, Eq)]
pub enum Ver {
    H09,
    H10,
    H11,
    H2,
    H3,
}

impl Ver {
    fn http(self) -> http::Version {
        match self {
            Ver::H09 => http::Version::HTTP_09,
            Ver::H10 => http::Version::HTTP_10,
            Ver::H11 => http::Version::HTTP_11,
            Ver::H2 => http::Version::HTTP_2,
            Ver::H3 => http::Version::HTTP_3,
        }
    }
}

#[derive(Clone, Debug, Serialize, Deserialize, PartialEq)]
pub enum Step {
    Issue { req: u32, origin: usize, ver: Ver },
    Poll { req: u32 },
    Cancel { req: u32 },
    DialOk { req: u32 },
    DialFail { req: u32 },
    HsOk { req: u32 },
    HsFail { req: u32 },
    Respond { req: u32 },
    RespondUpgrade { req: u32 },
    RespondErr { req: u32 },
    /// the HTTP/1 connection created by `conn_of`'s dial finished its exchange (body consumed)
    ConnReady { conn_of: u32 },
    ConnClose { conn_of: u32 },
    /// the busy HTTP/1 connection wakes whoever waits for its readiness without being ready (a
    /// body frame went by; wake-ups may always be spurious)
    ConnWake { conn_of: u32 },
    /// fault: the response future of this request's exchange panics at its next poll
    RespondPanic { req: u32 },
    /// `n` requests to as many other origins are issued and dropped at once (a crawler, a proxy):
    /// whatever the pool keeps per origin it has ever seen is put under load
    Flood { n: u32 },
    Bg,
    Advance { ms: u64 },
    DropService,
    /// back-pressure: close / open the readiness of the transport (`transport`) or of the service
    /// below the pool (`!transport`)
    Gate { transport: bool, open: bool },
}

impl Step {
    fn kind(&self) -> u64 {
        match self {
            Step::Issue { .. } => 1,
            Step::Poll { .. } => 2,
            Step::Cancel { .. } => 3,
            Step::DialOk { .. } => 4,
            Step::DialFail { .. } => 5,
            Step::HsOk { .. } => 6,
            Step::HsFail { .. } => 7,
            Step::Respond { .. } => 8,
            Step::RespondUpgrade { .. } => 9,
            Step::RespondErr { .. } => 10,
            Step::ConnReady { .. } => 11,
            Step::ConnClose { .. } => 12,
            Step::Bg => 13,
            Step::Advance { .. } => 14,
            Step::DropService => 15,
            Step::Gate { .. } => 16,
            Step::ConnWake { .. } => 17,
            Step::RespondPanic { .. } => 18,
            Step::Flood { .. } => 19,
        }
    }
}

#[derive(Clone, Debug, Serialize, Deserialize)]
pub struct PoolCfg {
    pub origins: Vec<String>,
    pub alpn_h2: Vec<usize>,
    pub idle_timeout_ms: Option<u64>,
    pub max_idle: usize,
    pub continue_after_preemption: bool,
    pub timeout_ms: Option<u64>,
    pub max_reqs: u32,
    /// stub connections answer `is_open() == true` while busy
    #[serde(default)]
    pub open_while_busy: bool,
    /// fault point (hook H4): the pool's non-blocking lock attempt fails, as if another thread
    /// held the pool lock (the blocking lock is unaffected)
    #[serde(default)]
    pub pool_lock_contended: bool,
    /// the pooled service is created inside the context of another runtime, which is gone by
    /// the time the service is used
    #[serde(default)]
    pub built_on_other_runtime: bool,
    /// stub connections become busy when the send_request future is first polled, not in the call
    #[serde(default)]
    pub lazy_send: bool,
    /// the schedule may close and open the transport's readiness (poll_ready answers Pending)
    #[serde(default)]
    pub gate_transport: bool,
    /// the schedule may close and open the readiness of the service below the pool
    #[serde(default)]
    pub gate_inner: bool,
    /// the caller does not drop a request's future when it completes (a pinned future in a
    /// `select!`, a fallback issued in the same scope): finished futures stay alive to the end of
    /// the run
    #[serde(default)]
    pub keep_finished: bool,
    /// the service below the pool sends through the dereferenced connection
    #[serde(default)]
    pub deref_send: bool,
    /// odd-numbered requests carry a Host header supplied by the caller that names *another*
    /// authority (a virtual host): the origin of a request is the scheme and authority of its
    /// URI, whatever its headers say
    #[serde(default)]
    pub foreign_host_header: bool,
}

#[derive(Clone, Debug, Serialize, Deserialize)]
pub struct PoolCase {
    pub profile: String,
    pub seed: u64,
    pub cfg: PoolCfg,
    pub max_steps: usize,
    /// None = steps are generated online from `seed`; Some = explicit replay list
    pub steps: Option<Vec<Step>>,
}

struct FlagWaker {
    woken: AtomicBool,
    count: AtomicU32,
}

impl Wake for FlagWaker {
    fn wake(self: Arc<Self>) {
        self.woken.store(true, Ordering::SeqCst);
        self.count.fetch_add(1, Ordering::SeqCst);
    }
    fn wake_by_ref(self: &Arc<Self>) {
        self.woken.store(true, Ordering::SeqCst);
        self.count.fetch_add(1, Ordering::SeqCst);
    }
}

#[derive(Clone, Debug, PartialEq)]
enum RState {
    Pending,
    DoneOk,
    DoneErr(String),
    Cancelled,
    Panicked,
}

struct ReqSlot {
    origin: usize,
    ver: Ver,
    fut: Option<BoxFut>,
    waker: Arc<FlagWaker>,
    polls: u32,
    state: RState,
    issue_step: usize,
    issue_ms: u64,
    done_ms: Option<u64>,
    had_idle_at_issue: bool,
    must_not_dial: Option<(&'static str, serde_json::Value, String)>,
    inflight_h2_at_issue: Option<usize>,
    expect: Option<(usize, usize)>,
    is_probe: bool,
    dialed: bool,
    stage_at_timeout: Option<&'static str>,
    /// the service was not ready (poll_ready) when the request was issued: the handle and the
    /// request wait here, as they would inside tower's Oneshot
    unready: Option<(Svc, http::Request<SimBody>)>,
    /// idle clocks restarted at this request's issue (connection, idle_since, last activity, last
    /// touch step before): a request that then dials its own connection has taken none of them
    /// out of the pool - they never moved, and their clocks go back
    clock_resets: Vec<(usize, Option<u64>, u64, usize)>,
}

#[derive(Clone)]
struct Weights {
    issue: u32,
    poll_woken: u32,
    poll_spurious: u32,
    cancel: u32,
    dial_ok: u32,
    dial_fail: u32,
    hs_ok: u32,
    hs_fail: u32,
    respond: u32,
    respond_upgrade: u32,
    respond_err: u32,
    respond_panic: u32,
    flood: u32,
    conn_ready: u32,
    conn_close: u32,
    conn_wake: u32,
    bg: u32,
    advance: u32,
    drop_service: u32,
    h2_pct: u64,
    weird_ver_pct: u64,
}

fn weights_for(profile: &str, r: &mut Rng, faulty: bool) -> Weights {
    let mut w = Weights {
        issue: 14,
        poll_woken: 30,
        poll_spurious: 2,
        cancel: 5,
        dial_ok: 12,
        dial_fail: 3,
        hs_ok: 12,
        hs_fail: 2,
        respond: 12,
        respond_upgrade: 0,
        respond_err: 1,
        respond_panic: 0,
        flood: 0,
        conn_ready: 12,
        conn_close: 3,
        conn_wake: 3,
        bg: 12,
        advance: 0,
        drop_service: 0,
        h2_pct: 40,
        weird_ver_pct: 0,
    };
    match profile {
        "C02" => {
            w.h2_pct = 15;
            w.respond_upgrade = 3;
            w.respond_panic = 2;
            w.conn_wake = 8;
            w.cancel = 8;
            w.conn_close = 2;
            w.advance = 4;
        }
        "C03" => {
            w.h2_pct = 60;
            w.dial_fail = 8;
            w.hs_fail = 5;
            w.cancel = 9;
            w.drop_service = 1;
        }
        "C04" => {
            w.h2_pct = 55;
            w.dial_fail = 1;
            w.hs_fail = 1;
            w.conn_close = 1;
            w.cancel = 6;
            w.respond_err = 0;
        }
        "C05" => {
            w.conn_close = 10;
            w.advance = 8;
            w.h2_pct = 35;
        }
        "C06" => {
            w.h2_pct = 40;
            w.issue = 18;
        }
        "C14" => {
            w.h2_pct = 30;
            w.dial_fail = 1;
            w.hs_fail = 1;
            w.conn_close = 1;
            w.dial_ok = 6;
            w.hs_ok = 6;
            w.cancel = 5;
        }
        "C15" => {
            w.flood = if r.chance(1, 6) { 2 } else { 0 };
            w.h2_pct = 0;
            w.issue = 20;
            w.conn_close = 4;
            w.cancel = 9;
            w.poll_woken = 18;
            w.advance = 4;
            w.dial_fail = 1;
            w.hs_fail = 1;
        }
        "C19" => {
            w.advance = 12;
            w.dial_ok = 8;
            w.hs_ok = 8;
            w.respond = 8;
        }
        "C17" => {
            w.weird_ver_pct = 25;
            w.respond_upgrade = 2;
            w.drop_service = 1;
            w.advance = 3;
        }
        _ => {}
    }
    if !faulty {
        w.cancel = 0;
        w.dial_fail = 0;
        w.hs_fail = 0;
        w.respond_err = 0;
        w.respond_panic = 0;
        w.conn_close = 0;
        w.drop_service = 0;
    } else {
        // swarm: each fault kind is switched off in a random subset of runs
        for f in [&mut w.cancel, &mut w.dial_fail, &mut w.hs_fail, &mut w.respond_err, &mut w.conn_close] {
            if r.chance(1, 4) {
                *f = 0;
            } else if r.chance(1, 4) {
                *f *= 3;
            }
        }
    }
    w
}

fn gen_cfg(profile: &str, r: &mut Rng) -> PoolCfg {
    let n_origins = match profile {
        "C03" | "C14" | "C15" => 1,
        "C06" => r.range(2, 4) as usize,
        _ => *r.weighted(&[(5, 1usize), (3, 2), (1, 3)]),
    };
    let mut pool: Vec<&str> = ORIGINS.to_vec();
    let mut origins = vec![];
    for _ in 0..n_origins {
        let i = r.usize_below(pool.len());
        origins.push(pool.remove(i).to_string());
    }
    // C15: a third of the runs address one origin under two spellings (host names are
    // case-insensitive): the limit is per origin, not per spelling
    if profile == "C15" && Rng::keyed(r.below(1 << 40), "pool/c15-spelling").chance(1, 3) {
        origins = vec!["http://a.test".to_string(), "http://A.TEST".to_string()];
    }
    let alpn_h2 = if matches!(profile, "C15") {
        vec![]
    } else {
        (0..origins.len()).filter(|i| (origins[*i].starts_with("https") || origins[*i].starts_with("wss")) && r.chance(1, 2)).collect()
    };
    let idle_timeout_ms = match profile {
        "C04" | "C14" => None,
        // an idle timeout must not change what "retained" means: expired entries still count
        "C15" => *r.pick(&[None, None, Some(5), Some(50)]),
        "C05" => *r.pick(&[None, Some(0), Some(5), Some(90_000), Some(5), Some(50), Some(u64::MAX)]),
        "C17" => *r.weighted(&[(4, None), (1, Some(0)), (1, Some(5)), (3, Some(90_000)), (2, Some(u64::MAX))]),
        _ => *r.weighted(&[(5, None), (1, Some(0)), (1, Some(5)), (3, Some(90_000))]),
    };
    let max_reqs = match profile {
        "C15" => r.range(2, 7) as u32,
        _ => r.range(2, 6) as u32,
    };
    let k = max_reqs as usize;
    let max_idle = match profile {
        "C04" => 32,
        "C15" => *r.pick(&[0, 1, 2, k.saturating_sub(1), k, k + 1]),
        _ => *r.weighted(&[(6, 32usize), (1, 0), (1, 1), (1, 2)]),
    };
    let timeout_ms = match profile {
        "C19" => Some(*r.pick(&[0u64, 1, 20, 30_000, 20, 5])),
        "C17" => *r.pick(&[None, None, Some(20u64)]),
        _ => None,
    };
    PoolCfg {
        origins,
        alpn_h2,
        idle_timeout_ms,
        max_idle,
        continue_after_preemption: r.bool(),
        timeout_ms,
        max_reqs,
        open_while_busy: matches!(profile, "C02" | "C05" | "C17") && r.chance(1, 3),
        pool_lock_contended: r.chance(1, 3),
        built_on_other_runtime: r.chance(1, 4),
        lazy_send: r.chance(1, 3),
        gate_transport: match profile {
            "C14" => r.chance(1, 2),
            "C03" | "C15" | "C17" | "C19" => r.chance(1, 4),
            _ => false,
        },
        deref_send: matches!(profile, "C02" | "C05" | "C15") && r.chance(1, 3),
        foreign_host_header: matches!(profile, "C06" | "C04" | "C17") && Rng::keyed(r.below(1 << 40), "pool/foreign-host").chance(1, 3),
        keep_finished: match profile {
            "C15" | "C03" => r.chance(1, 3),
            "C14" | "C04" | "C19" => r.chance(1, 4),
            _ => false,
        },
        gate_inner: match profile {
            "C15" => r.chance(1, 2),
            "C03" | "C14" | "C17" | "C19" => r.chance(1, 4),
            _ => false,
        },
    }
}

enum Svc {
    Plain(PoolSvc),
    Timed(Timeout<PoolSvc, ClientError>),
}

impl Svc {
    /// A second handle onto the same pool (what `Client` does for every request).
    fn another_handle(&self) -> Svc {
        match self {
            Svc::Plain(s) => Svc::Plain(s.clone()),
            Svc::Timed(s) => Svc::Timed(s.clone()),
        }
    }
}

impl Svc {
    fn poll_ready_any(&mut self, cx: &mut Context<'_>) -> Poll<Result<(), ClientError>> {
        match self {
            Svc::Plain(s) => s.poll_ready(cx),
            Svc::Timed(s) => s.poll_ready(cx),
        }
    }
    fn call_any(&mut self, request: http::Request<SimBody>) -> BoxFut {
        match self {
            Svc::Plain(s) => Box::pin(s.call(request)),
            Svc::Timed(s) => Box::pin(s.call(request)),
        }
    }
}

fn timeout_error() -> ClientError {
    ClientError::RequestTimeout
}

struct Run<'a> {
    case: &'a PoolCase,
    w: W,
    svc: Option<Svc>,
    /// a clone of `svc`: odd-numbered requests go through it, so that state which must be shared
    /// between handles (key table, idle lists, waiters) is exercised across handles
    svc2: Option<Svc>,
    reqs: Vec<ReqSlot>,
    out: Outcome,
    sig: Digest,
    rng: Rng,
    weights: Weights,
    faulty: bool,
    executed: Vec<Step>,
    t0: tokio::time::Instant,
    seen_dials: usize,
    seen_handoffs: usize,
    noop_steps: u64,
    service_dropped: bool,
    /// (origin, step) of every checkout that ended (completed / failed / cancelled), for C04 causes
    checkout_ended: Vec<(usize, usize)>,
    unpolled_cancel: Vec<(usize, usize)>,
    preempted: Vec<(usize, usize)>, // (dial id, step) abandoned attempts (pre-empted or cancelled)
    draining: bool,
    /// logical request id (as written in steps) -> slot, and back; keeps step lists meaningful
    /// when the minimiser deletes an earlier Issue
    lmap: BTreeMap<u32, u32>,
    rmap: Vec<u32>,
    /// per origin index: a cancel happened and background work has not run since, so a
    /// connection may be on its way back to the pool (dropped inside a waiter channel)
    dirty_since_cancel: Vec<bool>,
    /// per request: its waker had been invoked and it had not been polled since, when the
    /// current step began
    woken_before_step: Vec<bool>,
    /// futures that have completed and are kept alive (cfg.keep_finished)
    kept_futs: Vec<BoxFut>,
    flooded: bool,
}

pub struct PoolSim {
    pub property: &'static str,
}

fn ver_for(w: &Weights, r: &mut Rng) -> Ver {
    if w.weird_ver_pct > 0 && r.chance(w.weird_ver_pct, 100) {
        return *r.pick(&[Ver::H09, Ver::H10, Ver::H3, Ver::H10]);
    }
    if r.chance(w.h2_pct, 100) {
        Ver::H2
    } else {
        Ver::H11
    }
}

impl<'a> Run<'a> {
    fn now_ms(&self) -> u64 {
        simrt::ms_since(self.t0)
    }

    fn sync_clock(&self) {
        let now = self.now_ms();
        self.w.lock().now_ms = now;
    }

    fn viol(&mut self, property: &str, rule: &str, sig: serde_json::Value, detail: String) {
        if self
            .out
            .violations
            .iter()
            .any(|v| v.property == property && v.rule == rule && v.signature == sig)
        {
            return;
        }
        self.out.violations.push(Violation::new(property, rule, sig, detail));
    }

    fn origin_str(&self, o: usize) -> String {
        let uri: http::Uri = self.case.cfg.origins[o].parse().expect("origin uri");
        origin_of(&uri)
    }

    fn pending_dial_of(&self, req: u32, w: &World) -> Option<usize> {
        w.dials.iter().rev().find(|d| d.owner == Some(req)).map(|d| d.id)
    }

    fn conn_of(&self, req: u32, w: &World) -> Option<usize> {
        self.pending_dial_of(req, w).and_then(|d| w.dials[d].conn)
    }

    // ---------------------------------------------------------------- enabled actions (generation)
    fn enabled(&mut self) -> Vec<(u32, Step)> {
        let w = self.w.lock();
        let wt = &self.weights;
        let mut v: Vec<(u32, Step)> = vec![];
        let issued = self.reqs.len() as u32;
        if issued < self.case.cfg.max_reqs && self.svc.is_some() {
            // the concrete origin/version are drawn when the step is chosen
            v.push((wt.issue, Step::Issue { req: issued, origin: 0, ver: Ver::H11 }));
        }
        for (i, r) in self.reqs.iter().enumerate() {
            if r.state != RState::Pending {
                continue;
            }
            let woken = r.waker.woken.load(Ordering::SeqCst) || r.polls == 0;
            v.push((if woken { wt.poll_woken } else { wt.poll_spurious }, Step::Poll { req: i as u32 }));
            if wt.cancel > 0 {
                v.push((wt.cancel, Step::Cancel { req: i as u32 }));
            }
        }
        for d in &w.dials {
            let Some(o) = d.owner else { continue };
            if d.state == AsyncState::Pending {
                v.push((wt.dial_ok, Step::DialOk { req: o }));
                if wt.dial_fail > 0 {
                    v.push((wt.dial_fail, Step::DialFail { req: o }));
                }
            }
        }
        for h in &w.hss {
            let Some(o) = w.dials[h.dial].owner else { continue };
            if h.state == AsyncState::Pending {
                v.push((wt.hs_ok, Step::HsOk { req: o }));
                if wt.hs_fail > 0 {
                    v.push((wt.hs_fail, Step::HsFail { req: o }));
                }
            }
        }
        for e in &w.exchs {
            let Some(r) = e.req else { continue };
            if e.state == AsyncState::Pending {
                v.push((wt.respond, Step::Respond { req: r }));
                if wt.respond_upgrade > 0 && !w.conns[e.conn].h2 {
                    v.push((wt.respond_upgrade, Step::RespondUpgrade { req: r }));
                }
                if wt.respond_err > 0 {
                    v.push((wt.respond_err, Step::RespondErr { req: r }));
                }
                if wt.respond_panic > 0 && !e.panic_next {
                    v.push((wt.respond_panic, Step::RespondPanic { req: r }));
                }
            }
        }
        for c in &w.conns {
            let Some(o) = w.dials[c.dial].owner else { continue };
            if c.destroyed_step.is_some() && c.handles_live <= 0 {
                continue;
            }
            if !c.h2 && c.busy && c.open && !c.upgraded {
                let settled = w
                    .exchs
                    .iter()
                    .filter(|e| e.conn == c.id)
                    .all(|e| matches!(e.state, AsyncState::Taken | AsyncState::Dropped));
                if settled {
                    v.push((wt.conn_ready, Step::ConnReady { conn_of: o }));
                }
            }
            if c.open && wt.conn_close > 0 {
                v.push((wt.conn_close, Step::ConnClose { conn_of: o }));
            }
            if !c.h2 && c.busy && c.open && !c.ready_wakers.is_empty() && wt.conn_wake > 0 {
                v.push((wt.conn_wake, Step::ConnWake { conn_of: o }));
            }
        }
        v.push((wt.bg, Step::Bg));
        if wt.advance > 0 {
            v.push((wt.advance, Step::Advance { ms: 0 }));
        }
        if wt.drop_service > 0 && self.svc.is_some() && issued >= 2 {
            v.push((wt.drop_service, Step::DropService));
        }
        if wt.flood > 0 && !self.flooded && self.svc.is_some() && issued >= 1 {
            v.push((wt.flood, Step::Flood { n: 1100 }));
        }
        if self.case.cfg.gate_transport {
            v.push((if w.transport_gate_closed { 6 } else { 3 }, Step::Gate { transport: true, open: w.transport_gate_closed }));
        }
        if self.case.cfg.gate_inner {
            v.push((if w.inner_gate_closed { 6 } else { 3 }, Step::Gate { transport: false, open: w.inner_gate_closed }));
        }
        drop(w);
        v.into_iter()
            .map(|(wgt, s)| match s {
                Step::Issue { origin, ver, .. } => (wgt, Step::Issue { req: issued, origin, ver }),
                other => (wgt, self.logical(other)),
            })
            .collect()
    }

    fn draw_advance(&mut self) -> u64 {
        let mut cands: Vec<u64> = vec![1, 3, 10];
        if let Some(t) = self.case.cfg.idle_timeout_ms.filter(|t| *t < 1_000_000_000) {
            cands.extend([t.saturating_sub(1).max(1), t.max(1), t + 1, t * 10 + 1]);
        }
        if let Some(d) = self.case.cfg.timeout_ms {
            cands.extend([d.saturating_sub(1).max(1), d.max(1), d + 1]);
        }
        *self.rng.pick(&cands)
    }

    // ---------------------------------------------------------------- step execution
    fn translate(&self, step: &Step) -> Option<Step> {
        let m = |l: &u32| self.lmap.get(l).copied();
        Some(match step {
            Step::Issue { .. } | Step::Bg | Step::Advance { .. } | Step::DropService | Step::Gate { .. } | Step::Flood { .. } => step.clone(),
            Step::Poll { req } => Step::Poll { req: m(req)? },
            Step::Cancel { req } => Step::Cancel { req: m(req)? },
            Step::DialOk { req } => Step::DialOk { req: m(req)? },
            Step::DialFail { req } => Step::DialFail { req: m(req)? },
            Step::HsOk { req } => Step::HsOk { req: m(req)? },
            Step::HsFail { req } => Step::HsFail { req: m(req)? },
            Step::Respond { req } => Step::Respond { req: m(req)? },
            Step::RespondUpgrade { req } => Step::RespondUpgrade { req: m(req)? },
            Step::RespondErr { req } => Step::RespondErr { req: m(req)? },
            Step::RespondPanic { req } => Step::RespondPanic { req: m(req)? },
            Step::ConnReady { conn_of } => Step::ConnReady { conn_of: m(conn_of)? },
            Step::ConnClose { conn_of } => Step::ConnClose { conn_of: m(conn_of)? },
            Step::ConnWake { conn_of } => Step::ConnWake { conn_of: m(conn_of)? },
        })
    }

    fn logical(&self, step: Step) -> Step {
        let m = |s: u32| self.rmap.get(s as usize).copied().unwrap_or(s);
        match step {
            Step::Poll { req } => Step::Poll { req: m(req) },
            Step::Cancel { req } => Step::Cancel { req: m(req) },
            Step::DialOk { req } => Step::DialOk { req: m(req) },
            Step::DialFail { req } => Step::DialFail { req: m(req) },
            Step::HsOk { req } => Step::HsOk { req: m(req) },
            Step::HsFail { req } => Step::HsFail { req: m(req) },
            Step::Respond { req } => Step::Respond { req: m(req) },
            Step::RespondUpgrade { req } => Step::RespondUpgrade { req: m(req) },
            Step::RespondErr { req } => Step::RespondErr { req: m(req) },
            Step::RespondPanic { req } => Step::RespondPanic { req: m(req) },
            Step::ConnReady { conn_of } => Step::ConnReady { conn_of: m(conn_of) },
            Step::ConnClose { conn_of } => Step::ConnClose { conn_of: m(conn_of) },
            Step::ConnWake { conn_of } => Step::ConnWake { conn_of: m(conn_of) },
            other => other,
        }
    }

    /// Execute a step written with logical request ids (generated / replayed steps).
    async fn apply(&mut self, step: &Step) -> bool {
        let Some(step) = self.translate(step) else { return false };
        self.apply_slots(&step).await
    }

    /// Execute a step written with slot ids.
    async fn apply_slots(&mut self, step: &Step) -> bool {
        self.sync_clock();
        self.woken_before_step = self.reqs.iter().map(|r| r.waker.woken.load(Ordering::SeqCst)).collect();
        match step {
            Step::Issue { req, origin, ver } => {
                if self.lmap.contains_key(req) {
                    return false;
                }
                let slot = self.reqs.len() as u32;
                if self.do_issue(slot, *origin, *ver, false) {
                    self.lmap.insert(*req, slot);
                    self.rmap.push(*req);
                    true
                } else {
                    false
                }
            }
            Step::Poll { req } => self.do_poll(*req),
            Step::Cancel { req } => self.do_cancel(*req),
            Step::DialOk { req } | Step::DialFail { req } => {
                let ok = matches!(step, Step::DialOk { .. });
                let mut w = self.w.lock();
                let Some(d) = w.dials.iter().position(|d| d.owner == Some(*req) && d.state == AsyncState::Pending) else {
                    return false;
                };
                w.dials[d].state = if ok { AsyncState::Ok } else { AsyncState::Failed };
                w.ev(if ok { 14 } else { 15 }, d as u64, 0);
                let wk = w.dials[d].waker.take();
                drop(w);
                if !ok {
                    self.out.count("fault.dial_fail");
                }
                if let Some(wk) = wk {
                    wk.wake();
                }
                true
            }
            Step::HsOk { req } | Step::HsFail { req } => {
                let ok = matches!(step, Step::HsOk { .. });
                let mut w = self.w.lock();
                let Some(h) = w
                    .hss
                    .iter()
                    .position(|h| w.dials[h.dial].owner == Some(*req) && h.state == AsyncState::Pending)
                else {
                    return false;
                };
                if ok {
                    let id = w.conns.len();
                    let dial = w.hss[h].dial;
                    let origin = w.dials[dial].origin.clone();
                    let h2 = w.hss[h].h2;
                    let step_no = w.step;
                    let now = w.now_ms;
                    w.conns.push(Conn {
                        id,
                        dial,
                        origin,
                        h2,
                        open: true,
                        busy: false,
                        upgraded: false,
                        handles_live: 0,
                        ready_wakers: vec![],
                        created_step: step_no,
                        created_ms: now,
                        close_step: None,
                        holders: vec![],
                        handoffs: 0,
                        last_handoff_step: None,
                        release_step: None,
                        handback_step: None,
                        handback_ms: None,
                        idle_since: None,
                        last_activity_ms: now,
                        destroyed_step: None,
                        awaiting_handback: false,
                        taken_step: None,
                        ever_handed_back: false,
                        last_touch_step: step_no,
                    });
                    w.hss[h].conn = Some(id);
                    w.dials[dial].conn = Some(id);
                    w.hss[h].state = AsyncState::Ok;
                } else {
                    w.hss[h].state = AsyncState::Failed;
                }
                w.ev(if ok { 24 } else { 25 }, h as u64, 0);
                let wk = w.hss[h].waker.take();
                drop(w);
                if !ok {
                    self.out.count("fault.handshake_fail");
                }
                if let Some(wk) = wk {
                    wk.wake();
                }
                true
            }
            Step::Respond { req } | Step::RespondUpgrade { req } | Step::RespondErr { req } => {
                let mut w = self.w.lock();
                let Some(e) = w.exchs.iter().position(|e| e.req == Some(*req) && e.state == AsyncState::Pending) else {
                    return false;
                };
                let c = w.exchs[e].conn;
                match step {
                    Step::Respond { .. } => {
                        w.exchs[e].state = AsyncState::Ok;
                    }
                    Step::RespondUpgrade { .. } => {
                        if w.conns[c].h2 {
                            return false;
                        }
                        w.exchs[e].state = AsyncState::Ok;
                        w.exchs[e].upgrade = true;
                        w.conns[c].upgraded = true;
                        let wakers = std::mem::take(&mut w.conns[c].ready_wakers);
                        drop(w);
                        for wk in wakers {
                            wk.wake();
                        }
                        w = self.w.lock();
                        self.out.count("probe.upgrade_takes_connection");
                    }
                    _ => {
                        w.exchs[e].state = AsyncState::Failed;
                        // a failed exchange breaks the connection
                        let step_no = w.step;
                        w.conns[c].open = false;
                        w.conns[c].close_step.get_or_insert(step_no);
                        let wakers = std::mem::take(&mut w.conns[c].ready_wakers);
                        drop(w);
                        for wk in wakers {
                            wk.wake();
                        }
                        w = self.w.lock();
                        self.out.count("fault.exchange_error");
                    }
                }
                w.ev(44, e as u64, step.kind());
                let wk = w.exchs[e].waker.take();
                drop(w);
                if let Some(wk) = wk {
                    wk.wake();
                }
                true
            }
            Step::ConnReady { conn_of } => {
                let mut w = self.w.lock();
                let Some(c) = self.conn_of(*conn_of, &w) else { return false };
                if w.conns[c].h2 || !w.conns[c].busy || !w.conns[c].open || w.conns[c].upgraded {
                    return false;
                }
                let settled = w
                    .exchs
                    .iter()
                    .filter(|e| e.conn == c)
                    .all(|e| matches!(e.state, AsyncState::Taken | AsyncState::Dropped));
                if !settled {
                    return false;
                }
                w.conns[c].busy = false;
                w.ev(34, c as u64, 0);
                let wakers = std::mem::take(&mut w.conns[c].ready_wakers);
                drop(w);
                for wk in wakers {
                    wk.wake();
                }
                true
            }
            Step::Flood { n } => {
                if self.svc.is_none() || self.flooded {
                    return false;
                }
                self.flooded = true;
                for i in 0..*n {
                    let request = http::Request::builder().uri(format!("http://flood{}.test/", i)).body(SimBody::new()).expect("request");
                    let svc = self.svc.as_mut().unwrap();
                    let wk: Waker = Arc::new(FlagWaker { woken: AtomicBool::new(false), count: AtomicU32::new(0) }).into();
                    let mut cx = Context::from_waker(&wk);
                    let r = catch_unwind(AssertUnwindSafe(|| {
                        if let Poll::Ready(Ok(())) = svc.poll_ready_any(&mut cx) {
                            drop(svc.call_any(request));
                        }
                    }));
                    if r.is_err() {
                        self.note_panics(None, "flood");
                        break;
                    }
                }
                self.out.count("probe.flood_of_other_origins");
                true
            }
            Step::RespondPanic { req } => {
                let mut w = self.w.lock();
                let Some(e) = w.exchs.iter().position(|e| e.req == Some(*req) && e.state == AsyncState::Pending && !e.panic_next) else {
                    return false;
                };
                w.exchs[e].panic_next = true;
                w.ev(45, e as u64, 0);
                let wk = w.exchs[e].waker.take();
                drop(w);
                self.out.count("fault.panic_in_response_future");
                if let Some(wk) = wk {
                    wk.wake();
                }
                true
            }
            Step::ConnWake { conn_of } => {
                let mut w = self.w.lock();
                let Some(c) = self.conn_of(*conn_of, &w) else { return false };
                if w.conns[c].h2 || !w.conns[c].busy || !w.conns[c].open || w.conns[c].ready_wakers.is_empty() {
                    return false;
                }
                w.ev(35, c as u64, 0);
                let wakers = std::mem::take(&mut w.conns[c].ready_wakers);
                drop(w);
                self.out.count("fault.spurious_readiness_wakeup");
                for wk in wakers {
                    wk.wake();
                }
                true
            }
            Step::ConnClose { conn_of } => {
                let mut w = self.w.lock();
                let Some(c) = self.conn_of(*conn_of, &w) else { return false };
                if !w.conns[c].open {
                    return false;
                }
                let step_no = w.step;
                w.conns[c].open = false;
                w.conns[c].close_step = Some(step_no);
                w.ev(35, c as u64, 0);
                let state = if !w.conns[c].holders.is_empty() {
                    if w.conns[c].busy { "busy" } else { "held" }
                } else if w.conns[c].awaiting_handback {
                    "released_not_ready"
                } else if w.conns[c].idle_since.is_some() {
                    "idle_or_queued"
                } else if w.conns[c].h2 {
                    "h2"
                } else {
                    "other"
                };
                let wakers = std::mem::take(&mut w.conns[c].ready_wakers);
                let mut exch_wakers = vec![];
                for e in w.exchs.iter_mut().filter(|e| e.conn == c && e.state == AsyncState::Pending) {
                    e.state = AsyncState::Failed;
                    if let Some(wk) = e.waker.take() {
                        exch_wakers.push(wk);
                    }
                }
                drop(w);
                self.out.count(&format!("fault.conn_close_{}", state));
                for wk in wakers.into_iter().chain(exch_wakers) {
                    wk.wake();
                }
                true
            }
            Step::Bg => {
                self.background().await;
                for d in self.dirty_since_cancel.iter_mut() {
                    *d = false;
                }
                true
            }
            Step::Advance { ms } => {
                tokio::time::advance(Duration::from_millis(*ms)).await;
                self.sync_clock();
                self.out.count("probe.clock_advanced");
                true
            }
            Step::DropService => {
                if self.svc.is_none() {
                    return false;
                }
                let waiting = self.reqs.iter().filter(|r| r.state == RState::Pending).count();
                self.svc = None;
                self.svc2 = None;
                self.service_dropped = true;
                self.out.count("fault.drop_service");
                if waiting > 0 {
                    self.out.count("probe.drop_service_with_pending_requests");
                }
                true
            }
            Step::Gate { transport, open } => {
                let mut w = self.w.lock();
                let closed = if *transport { &mut w.transport_gate_closed } else { &mut w.inner_gate_closed };
                if *closed != *open {
                    return false; // already in that state
                }
                *closed = !*open;
                let wakers = if *open { std::mem::take(if *transport { &mut w.transport_wakers } else { &mut w.inner_wakers }) } else { vec![] };
                w.ev(60, *transport as u64, *open as u64);
                drop(w);
                if !*open {
                    self.out.count(if *transport { "fault.transport_not_ready" } else { "fault.inner_service_not_ready" });
                }
                for wk in wakers {
                    wk.wake();
                }
                true
            }
        }
    }

    async fn background(&mut self) {
        let handle = tokio::runtime::Handle::current();
        let mut stable = 0;
        for _ in 0..64 {
            let before = (self.w.lock().events, handle.metrics().num_alive_tasks());
            tokio::task::yield_now().await;
            let after = (self.w.lock().events, handle.metrics().num_alive_tasks());
            if before == after {
                stable += 1;
                if stable >= 3 {
                    break;
                }
            } else {
                stable = 0;
            }
        }
    }

    fn do_issue(&mut self, req: u32, origin: usize, ver: Ver, is_probe: bool) -> bool {
        if req as usize != self.reqs.len() || self.svc.is_none() || origin >= self.case.cfg.origins.len() {
            return false;
        }
        let authority_form = !self.case.cfg.origins[origin].contains("://");
        let uri = if authority_form { self.case.cfg.origins[origin].clone() } else { format!("{}/r{}", self.case.cfg.origins[origin], req) };
        let mut request = http::Request::builder()
            .method(if authority_form { http::Method::CONNECT } else { http::Method::GET })
            .uri(uri)
            .version(ver.http())
            .body(SimBody::new())
            .expect("request");
        request.extensions_mut().insert(ReqId(req));
        if self.case.cfg.foreign_host_header && req % 2 == 1 && !is_probe && !authority_form {
            // the authority of the next configured origin, or a name nobody serves
            let n = self.case.cfg.origins.len();
            let other = self.case.cfg.origins[(origin + 1) % n].parse::<http::Uri>().ok().and_then(|u| u.authority().map(|a| a.as_str().rsplit('@').next().unwrap_or("").to_string()));
            let value = match other {
                Some(a) if n > 1 => a,
                _ => "other.example".to_string(),
            };
            if let Ok(v) = http::HeaderValue::from_str(&value) {
                request.headers_mut().insert(http::header::HOST, v);
            }
        }
        let ostr = self.origin_str(origin);
        let now = self.now_ms();

        // ---- snapshot of what the pool could offer right now (for C04 / C05 / C14)
        let mut maybe_pure = false;
        let (snapshot, inflight_h2, must_not_dial) = {
            let w = self.w.lock();
            let mut snap = vec![];
            let mut h1_idle = vec![];
            let mut h2_reg = vec![];
            for c in &w.conns {
                if c.origin != ostr || c.handles_live <= 0 {
                    continue;
                }
                if !c.h2 {
                    if let Some(s) = c.idle_since {
                        snap.push((c.id, s));
                        if c.open && !c.busy && !c.upgraded {
                            h1_idle.push(c.id);
                        }
                    }
                } else if c.taken_step.is_some() {
                    snap.push((c.id, c.last_activity_ms));
                    if c.open {
                        h2_reg.push(c.id);
                    }
                }
            }
            // in-flight HTTP/2 attempt for this origin (owned by an HTTP/2 request)
            let inflight = w
                .dials
                .iter()
                .filter(|d| d.origin == ostr && d.h2_requested)
                .filter(|d| match d.state {
                    AsyncState::Pending | AsyncState::Ok => true,
                    AsyncState::Taken => match d.hs {
                        Some(h) => matches!(w.hss[h].state, AsyncState::Pending | AsyncState::Ok),
                        None => true,
                    },
                    _ => false,
                })
                .map(|d| d.id)
                .next_back();
            let others_pending = self
                .reqs
                .iter()
                .enumerate()
                .any(|(i, r)| r.state == RState::Pending && r.origin_str_eq(&w, i, &ostr) && !w.handoffs.iter().any(|h| h.req == i as u32));
            // Another HTTP/2 request of this origin that has not been handed a connection yet may
            // own the in-flight marker: this request may then be a pure waiter, which is released
            // (with an error) when that attempt ends. Such requests are not judged for C14.
            let cont = self.case.cfg.continue_after_preemption;
            maybe_pure = self.reqs.iter().enumerate().any(|(i, r)| {
                if r.ver != Ver::H2 || w.req_origin[i] != ostr {
                    return false;
                }
                // settled: its attempt is known to be over (so it cannot own the marker any more)
                let own_dial = w.dials.iter().rev().find(|d| d.owner == Some(i as u32));
                let waiting = r.state == RState::Pending && !w.handoffs.iter().any(|h| h.req == i as u32);
                let settled = match own_dial {
                    Some(d) => !w.attempt_in_flight(d.id),
                    // never dialed: still waiting, or abandoned before dialing (continues in the
                    // background only when continue_after_preemption is on)
                    None => !waiting && !cont,
                };
                !settled
            });
            let expired_possible = self.case.cfg.idle_timeout_ms.map(|t| t > 0).unwrap_or(false);
            let mut mnd = None;
            if !expired_possible && self.case.cfg.max_idle >= 16 {
                if !h2_reg.is_empty() {
                    // the shared handle never legitimately leaves the pool
                    let c = h2_reg[0];
                    let reg_step = w.conns[c].taken_step.unwrap_or(0);
                    let unpolled = self.reqs.iter().enumerate().any(|(i, r)| {
                        r.state == RState::Pending && r.polls == 0 && r.issue_step >= reg_step && w.req_origin[i] == ostr
                    });
                    let cancelled_unpolled = self.unpolled_cancel.iter().any(|(o, s)| *o == origin && *s >= reg_step);
                    let cause = if unpolled {
                        "handle_popped_by_unpolled_request"
                    } else if cancelled_unpolled {
                        "handle_dropped_by_cancel_before_first_poll"
                    } else {
                        "none"
                    };
                    mnd = Some((
                        "h2_dup_dial_established",
                        json!({"cause": cause}),
                        format!("an open HTTP/2 connection {} for {} existed when the request was issued", c, ostr),
                    ));
                } else if !h1_idle.is_empty() && !others_pending && !self.dirty_since_cancel[origin] {
                    mnd = Some((
                        "idle_not_reused",
                        json!({"cause": "none"}),
                        format!("idle open connection(s) {:?} for {} existed and no other request was pending when the request was issued", h1_idle, ostr),
                    ));
                }
            }
            (snap, inflight, mnd)
        };
        let mut clock_resets: Vec<(usize, Option<u64>, u64, usize)> = vec![];
        {
            // Whatever this request takes out of the pool now is no longer "sitting idle", even if
            // the request is never polled: the idle clock of every candidate restarts here (which
            // one the pool picks is not observable; restarting all of them is the sound choice).
            let mut w = self.w.lock();
            let step = w.step;
            for (c, _) in &snapshot {
                let conn = &mut w.conns[*c];
                clock_resets.push((*c, conn.idle_since, conn.last_activity_ms, conn.last_touch_step));
                conn.last_touch_step = step;
                conn.last_activity_ms = now;
                if conn.idle_since.is_some() {
                    conn.idle_since = Some(now);
                }
            }
        }
        {
            let mut w = self.w.lock();
            let step = w.step;
            w.req_issue_step.push(step);
            w.req_issue_ms.push(now);
            w.req_origin.push(ostr.clone());
            w.req_idle_snapshot.push(snapshot.clone());
            w.ev(1, req as u64, origin as u64 * 8 + ver as u64);
        }
        if !snapshot.is_empty() {
            self.out.count("probe.issue_with_pooled_connection_present");
        }
        if inflight_h2.is_some() && ver == Ver::H2 {
            self.out.count("probe.issue_while_h2_attempt_in_flight");
        }
        let waker = Arc::new(FlagWaker { woken: AtomicBool::new(false), count: AtomicU32::new(0) });
        let svc = if req % 2 == 1 && self.svc2.is_some() { self.svc2.as_mut().unwrap() } else { self.svc.as_mut().unwrap() };
        // tower's contract, as Oneshot / Client::request follow it: readiness first, then the call
        // (the pooled service is always ready on the unchanged tree, so the call happens here)
        let wk: Waker = waker.clone().into();
        let mut cx = Context::from_waker(&wk);
        let mut request = Some(request);
        let mut unready = None;
        let called = catch_unwind(AssertUnwindSafe(|| -> Result<Option<BoxFut>, ClientError> {
            match svc.poll_ready_any(&mut cx) {
                Poll::Ready(Ok(())) => Ok(Some(svc.call_any(request.take().unwrap()))),
                Poll::Ready(Err(e)) => Err(e),
                Poll::Pending => {
                    unready = Some((svc.another_handle(), request.take().unwrap()));
                    Ok(None)
                }
            }
        }));
        if unready.is_some() {
            self.out.count("probe.pooled_service_not_ready_at_issue");
        }
        let issue_step = self.w.lock().step;
        let mut slot = ReqSlot {
            origin,
            ver,
            fut: None,
            waker,
            polls: 0,
            state: RState::Pending,
            issue_step,
            issue_ms: now,
            done_ms: None,
            had_idle_at_issue: !snapshot.is_empty() || maybe_pure,
            must_not_dial,
            inflight_h2_at_issue: if ver == Ver::H2 { inflight_h2 } else { None },
            expect: None,
            is_probe,
            dialed: false,
            stage_at_timeout: None,
            unready: None,
            clock_resets,
        };
        let panicked = called.is_err();
        match called {
            Ok(Ok(Some(f))) => slot.fut = Some(f),
            Ok(Ok(None)) => slot.unready = unready,
            Ok(Err(e)) => {
                slot.state = RState::DoneErr(format!("{}", e));
                slot.done_ms = Some(now);
            }
            Err(_) => slot.state = RState::Panicked,
        }
        self.reqs.push(slot);
        if panicked {
            self.note_panics(Some(req), "call");
        }
        true
    }

    fn note_panics(&mut self, req: Option<u32>, place: &str) {
        for p in simrt::take_panics() {
            if p.is_injected() {
                continue; // the fault itself (Step::RespondPanic), not the library's doing
            }
            if p.in_harness() {
                self.out.harness_error = Some(format!("panic in harness code at {}: {}", p.location(), p.message));
                continue;
            }
            let ver = req.and_then(|r| self.reqs.get(r as usize).map(|s| s.ver));
            self.viol(
                "C17",
                "panic",
                json!({"location": p.location()}),
                format!("panic during {} of request {:?} (version {:?}): {} at {}", place, req, ver, p.message, p.location()),
            );
        }
    }

    fn request_stage(&self, req: u32) -> &'static str {
        let w = self.w.lock();
        if let Some(e) = w.exchs.iter().rev().find(|e| e.req == Some(req)) {
            return match e.state {
                AsyncState::Pending => "awaiting_response",
                _ => "response_ready",
            };
        }
        if let Some(d) = w.dials.iter().rev().find(|d| d.owner == Some(req)) {
            return match d.state {
                AsyncState::Pending | AsyncState::Ok => "own_dial",
                AsyncState::Taken => "handshaking",
                _ => "dial_over",
            };
        }
        if self.reqs[req as usize].polls == 0 {
            "unpolled"
        } else {
            "waiting_on_other"
        }
    }

    fn do_poll(&mut self, req: u32) -> bool {
        let i = req as usize;
        if i >= self.reqs.len() || self.reqs[i].state != RState::Pending || (self.reqs[i].fut.is_none() && self.reqs[i].unready.is_none()) {
            return false;
        }
        if let Some((mut svc, request)) = self.reqs[i].unready.take() {
            // still inside "Oneshot": ask for readiness again, call once it is there
            let waker: Waker = self.reqs[i].waker.clone().into();
            let mut cx = Context::from_waker(&waker);
            let mut request = Some(request);
            let r = catch_unwind(AssertUnwindSafe(|| match svc.poll_ready_any(&mut cx) {
                Poll::Ready(Ok(())) => Poll::Ready(Ok(svc.call_any(request.take().unwrap()))),
                Poll::Ready(Err(e)) => Poll::Ready(Err(e)),
                Poll::Pending => Poll::Pending,
            }));
            match r {
                Ok(Poll::Ready(Ok(f))) => self.reqs[i].fut = Some(f), // and poll it below
                Ok(Poll::Ready(Err(e))) => {
                    self.reqs[i].state = RState::DoneErr(format!("{}", e));
                    self.reqs[i].done_ms = Some(self.now_ms());
                    return true;
                }
                Ok(Poll::Pending) => {
                    self.reqs[i].waker.woken.store(false, Ordering::SeqCst);
                    self.reqs[i].polls += 1;
                    self.reqs[i].unready = Some((svc, request.take().unwrap()));
                    self.w.lock().ev(2, req as u64, 1);
                    self.judge_expectation(req, None);
                    return true;
                }
                Err(_) => {
                    self.reqs[i].state = RState::Panicked;
                    self.note_panics(Some(req), "poll_ready");
                    return true;
                }
            }
        }
        let was_woken = self.reqs[i].waker.woken.swap(false, Ordering::SeqCst);
        if !was_woken && self.reqs[i].polls > 0 {
            self.out.count("probe.spurious_poll");
        }
        let stage_before = self.request_stage(req);
        let handoffs_before = self.w.lock().handoffs.len();
        let waker: Waker = self.reqs[i].waker.clone().into();
        let mut cx = Context::from_waker(&waker);
        let mut fut = self.reqs[i].fut.take().unwrap();
        self.reqs[i].polls += 1;
        let res = catch_unwind(AssertUnwindSafe(|| fut.as_mut().poll(&mut cx)));
        self.w.lock().ev(2, req as u64, 0);
        match res {
            Err(_) => {
                self.reqs[i].state = RState::Panicked;
                drop(fut);
                self.note_panics(Some(req), "poll");
            }
            Ok(Poll::Pending) => {
                self.reqs[i].fut = Some(fut);
            }
            Ok(Poll::Ready(r)) => {
                if self.case.cfg.keep_finished {
                    self.out.count("probe.finished_future_kept_alive");
                    self.kept_futs.push(fut);
                } else {
                    drop(fut);
                }
                let now = self.now_ms();
                self.reqs[i].done_ms = Some(now);
                match r {
                    Ok(_) => self.reqs[i].state = RState::DoneOk,
                    Err(e) => {
                        let timed_out = matches!(e, ClientError::RequestTimeout);
                        if timed_out {
                            self.reqs[i].stage_at_timeout = Some(stage_before);
                            self.out.count(&format!("probe.timeout_in_stage_{}", stage_before));
                        }
                        self.reqs[i].state = RState::DoneErr(if timed_out { "timeout".into() } else { format!("{}", e) });
                    }
                }
                let o = self.reqs[i].origin;
                let step = self.w.lock().step;
                self.checkout_ended.push((o, step));
            }
        }
        // expectation from an earlier hand-back (C14)
        let new_handoff = {
            let w = self.w.lock();
            w.handoffs[handoffs_before..].iter().find(|h| h.req == req).cloned()
        };
        if new_handoff.is_some() {
            let o = self.reqs[i].origin;
            let step = self.w.lock().step;
            self.checkout_ended.push((o, step));
        }
        self.judge_expectation(req, new_handoff);
        true
    }

    /// C14: a request that was the first live waiter when a connection became available must
    /// have taken it by the end of its next poll.
    fn judge_expectation(&mut self, req: u32, new_handoff: Option<Handoff>) {
        let i = req as usize;
        if let Some((c, set_step)) = self.reqs[i].expect.take() {
            match &new_handoff {
                Some(h) if h.conn == c => {
                    self.out.count("probe.waiting_request_took_freed_connection");
                }
                other => {
                    let got = other.as_ref().map(|h| h.conn);
                    let still_pending = self.reqs[i].state == RState::Pending;
                    self.viol(
                        "C14",
                        "not_preempted",
                        json!({"got": if got.is_some() { "other_connection" } else if still_pending { "still_pending" } else { "finished_without" }}),
                        format!(
                            "request {} was the first live waiter when connection {} was made available at step {}, but its next poll gave {:?} (state {:?})",
                            req, c, set_step, got, self.reqs[i].state
                        ),
                    );
                    // whatever holds that connection now, it carries no request: as far as the
                    // idle limit is concerned the client retains it
                    let now = self.now_ms();
                    let mut w = self.w.lock();
                    let cc = &mut w.conns[c];
                    if cc.open && cc.holders.is_empty() && !cc.busy && cc.handles_live > 0 && cc.idle_since.is_none() {
                        cc.idle_since = Some(now);
                    }
                }
            }
        }
    }

    fn do_cancel(&mut self, req: u32) -> bool {
        let i = req as usize;
        if i >= self.reqs.len() || self.reqs[i].state != RState::Pending {
            return false;
        }
        let stage = self.request_stage(req);
        let o = self.reqs[i].origin;
        let ostr = self.origin_str(o);
        let had_handoff = self.w.lock().handoffs.iter().any(|h| h.req == req);
        // healthy pooled connections before the cancel (C04 cancel_destroys)
        let before: Vec<usize> = {
            let w = self.w.lock();
            w.conns
                .iter()
                .filter(|c| c.origin == ostr && !c.h2 && c.handles_live > 0 && c.open && !c.busy && !c.upgraded && c.idle_since.is_some())
                .map(|c| c.id)
                .collect()
        };
        let own_dial = {
            let w = self.w.lock();
            w.dials
                .iter()
                .rev()
                .find(|d| d.owner == Some(req))
                .filter(|d| match d.state {
                    AsyncState::Pending | AsyncState::Ok => true,
                    AsyncState::Taken => d.hs.map(|h| matches!(w.hss[h].state, AsyncState::Pending | AsyncState::Ok)).unwrap_or(true),
                    _ => false,
                })
                .map(|d| d.id)
        };
        if !had_handoff {
            // a connection this request had checked out goes back with a fresh idle timestamp
            let now = self.now_ms();
            let mut w = self.w.lock();
            let step = w.step;
            for c in w.conns.iter_mut().filter(|c| c.origin == ostr) {
                if c.idle_since.is_some() {
                    c.idle_since = Some(now);
                    c.last_activity_ms = now;
                    c.last_touch_step = step;
                }
            }
        }
        let fut = self.reqs[i].fut.take();
        let unready = self.reqs[i].unready.take();
        let r = catch_unwind(AssertUnwindSafe(move || drop((fut, unready))));
        if r.is_err() {
            self.note_panics(Some(req), "drop");
        }
        self.reqs[i].state = RState::Cancelled;
        self.reqs[i].expect = None;
        // (every configured spelling of the same origin shares one pool key)
        let canon = |u: &str| u.parse::<http::Uri>().map(|u| origin_of(&u)).unwrap_or_default();
        let key = canon(&self.case.cfg.origins[o]);
        for j in 0..self.case.cfg.origins.len() {
            if canon(&self.case.cfg.origins[j]) == key {
                self.dirty_since_cancel[j] = true;
            }
        }
        let step = self.w.lock().step;
        self.w.lock().ev(3, req as u64, 0);
        self.checkout_ended.push((o, step));
        if self.reqs[i].polls == 0 {
            self.unpolled_cancel.push((o, step));
            self.out.count("probe.cancel_between_call_and_first_poll");
        }
        self.out.count(&format!("fault.cancel_{}", stage));
        if let Some(d) = own_dial {
            self.preempted.push((d, step));
            self.check_abandoned_now(d, "cancelled");
        }
        if !had_handoff && self.case.cfg.max_idle >= 16 {
            let w = self.w.lock();
            let destroyed: Vec<usize> = before.iter().copied().filter(|c| w.conns[*c].handles_live <= 0).collect();
            drop(w);
            if !destroyed.is_empty() {
                self.viol(
                    "C04",
                    "cancel_destroys",
                    json!({"kind": "idle_http1_popped_then_dropped", "polled": self.reqs[i].polls > 0}),
                    format!(
                        "cancelling request {} (never handed a connection, {} polls) destroyed healthy idle connection(s) {:?}",
                        req, self.reqs[i].polls, destroyed
                    ),
                );
            }
        }
        true
    }

    /// continue_after_preemption = false: an abandoned attempt must be dropped at once.
    fn check_abandoned_now(&mut self, d: usize, why: &str) {
        if self.case.cfg.continue_after_preemption {
            return;
        }
        let w = self.w.lock();
        let alive = match w.dials[d].state {
            AsyncState::Pending | AsyncState::Ok => true,
            AsyncState::Taken => w.dials[d].hs.map(|h| matches!(w.hss[h].state, AsyncState::Pending | AsyncState::Ok)).unwrap_or(false),
            _ => false,
        };
        drop(w);
        if alive {
            self.viol(
                "C14",
                "abandoned_leaked",
                json!({"why": why}),
                format!("continue_after_preemption=false but the {} attempt (dial {}) is still running", why, d),
            );
        } else {
            self.out.count("probe.abandoned_attempt_dropped");
        }
    }

    // ---------------------------------------------------------------- after every step
    fn after_step(&mut self, step: &Step) {
        self.sync_clock();
        self.note_panics(None, "background task");
        // collect flags raised inside the stubs (hand-off invariants)
        let flags: Vec<Flag> = std::mem::take(&mut self.w.lock().flags);
        for f in flags {
            self.viol(f.property, f.rule, f.sig, f.detail);
        }
        let cur_step = self.w.lock().step;

        // ---- new dials: C04 classification
        let new_dials: Vec<(usize, Option<u32>)> = {
            let w = self.w.lock();
            w.dials[self.seen_dials..].iter().map(|d| (d.id, d.owner)).collect()
        };
        self.seen_dials += new_dials.len();
        for (d, owner) in new_dials {
            let Some(r) = owner else { continue };
            let ri = r as usize;
            if ri >= self.reqs.len() {
                continue;
            }
            self.reqs[ri].dialed = true;
            self.out.count("probe.dial_started");
            {
                // this request holds no pooled connection (it dials): whatever was idle when it was
                // issued stayed where it was
                let resets = std::mem::take(&mut self.reqs[ri].clock_resets);
                let issue = self.reqs[ri].issue_step;
                let mut w = self.w.lock();
                for (c, idle_since, last_activity, last_touch) in resets {
                    let conn = &mut w.conns[c];
                    if conn.last_touch_step == issue && conn.idle_since.is_some() && idle_since.is_some() {
                        conn.idle_since = idle_since;
                        conn.last_activity_ms = last_activity;
                        conn.last_touch_step = last_touch;
                    }
                }
            }
            if let Some((rule, sig, why)) = self.reqs[ri].must_not_dial.clone() {
                self.viol(
                    "C04",
                    rule,
                    sig,
                    format!("request {} started dial {} although {}", r, d, why),
                );
            }
            if let Some(a) = self.reqs[ri].inflight_h2_at_issue {
                // still in flight (or succeeded) when this dial starts?
                let w = self.w.lock();
                let da = &w.dials[a];
                let dead_on_arrival = da
                    .conn
                    .map(|c| match (w.conns[c].close_step, w.conns[c].taken_step) {
                        (Some(cs), Some(ts)) => cs <= ts,
                        (Some(_), None) => true,
                        _ => false,
                    })
                    .unwrap_or(false);
                let ok_or_running = !dead_on_arrival
                    && match da.state {
                        AsyncState::Pending | AsyncState::Ok => true,
                        AsyncState::Taken => match da.hs {
                            Some(h) => !matches!(w.hss[h].state, AsyncState::Failed | AsyncState::Dropped),
                            None => true,
                        },
                        _ => false,
                    };
                let a_start = da.start_step;
                let a_owner = da.owner;
                drop(w);
                if ok_or_running && a_owner != Some(r) {
                    let o = self.reqs[ri].origin;
                    let issue = self.reqs[ri].issue_step;
                    let other_ended = self.checkout_ended.iter().any(|(oo, s)| *oo == o && *s >= a_start && *s <= issue);
                    self.viol(
                        "C04",
                        "h2_dup_dial_inflight",
                        json!({"cause": if other_ended { "other_checkout_ended" } else { "none" }}),
                        format!(
                            "HTTP/2 request {} started its own dial {} although HTTP/2 attempt (dial {}, request {:?}) for the same origin was in flight when it was issued",
                            r, d, a, a_owner
                        ),
                    );
                }
            }
        }

        // ---- new hand-offs: pre-emption bookkeeping + H2 registration expectations
        let new_handoffs: Vec<Handoff> = {
            let w = self.w.lock();
            w.handoffs[self.seen_handoffs..].to_vec()
        };
        self.seen_handoffs += new_handoffs.len();
        for h in &new_handoffs {
            let ri = h.req as usize;
            self.out.count(if h.fresh { "probe.handoff_fresh" } else { "probe.handoff_reused" });
            // was the request still running its own attempt? then it was pre-empted
            let own = {
                let w = self.w.lock();
                w.dials
                    .iter()
                    .rev()
                    .find(|d| d.owner == Some(h.req))
                    .filter(|d| w.conns[h.conn].dial != d.id)
                    .filter(|d| match d.state {
                        AsyncState::Pending | AsyncState::Ok => true,
                        AsyncState::Taken => d.hs.map(|x| matches!(w.hss[x].state, AsyncState::Pending | AsyncState::Ok)).unwrap_or(true),
                        AsyncState::Dropped => true,
                        _ => false,
                    })
                    .map(|d| d.id)
            };
            if let Some(d) = own {
                self.out.count("probe.request_preempted_while_dialing");
                self.preempted.push((d, h.step));
                self.check_abandoned_now(d, "pre-empted");
            }
        }

        // ---- hand-back of an HTTP/1 connection in this step: who must take it? (C14)
        let reg_events: Vec<(bool, usize, String, bool)> = {
            let mut w = self.w.lock();
            let order = std::mem::take(&mut w.reg_events);
            order
                .into_iter()
                .map(|(h2, c)| {
                    let cc = &w.conns[c];
                    // (an open connection that vanished in the very step of its hand-back although no
                    // idle limit can be the reason still counts: a waiter was entitled to it)
                    let vanished_without_reason = cc.destroyed_step == Some(cur_step) && self.case.cfg.max_idle >= 16;
                    let usable = cc.open && (h2 || (cc.handback_step == Some(cur_step) && (cc.idle_since.is_some() || vanished_without_reason)));
                    (h2, c, cc.origin.clone(), usable)
                })
                .collect()
        };
        for (h2, c, ostr, usable) in reg_events {
            if self.service_dropped {
                continue;
            }
            if usable {
                self.out.count(if h2 { "probe.h2_registration" } else { "probe.handback" });
            }
            let mut cands: Vec<usize> = (0..self.reqs.len())
                .filter(|j| self.reqs[*j].state == RState::Pending && self.origin_str(self.reqs[*j].origin) == ostr)
                .filter(|j| !self.w.lock().handoffs.iter().any(|x| x.req == *j as u32))
                .filter(|j| self.reqs[*j].issue_step < cur_step)
                .collect();
            cands.sort_by_key(|j| self.reqs[*j].issue_step);
            if !usable {
                // a dead connection was (perhaps) passed on: whoever may have received it is not judged
                for j in cands {
                    self.reqs[j].had_idle_at_issue = true;
                }
                continue;
            }
            for (pos, j) in cands.iter().copied().enumerate() {
                if self.reqs[j].expect.is_some() {
                    continue; // already served by an earlier hand-back / registration
                }
                // A request whose own attempt is in flight is connecting, and a connecting checkout
                // keeps a live waiter (registered at issue or when it retried after the attempt it
                // had waited for ended). Alone in the queue, there is no doubt about the order.
                // (and nothing can be sitting in its channel from an earlier, unjudged hand-back: that
                // would have woken it, and it has not been woken since its last poll)
                let surely_waiting = cands.len() == 1 && !self.woken_before_step.get(j).copied().unwrap_or(true) && {
                    let w = self.w.lock();
                    w.dials.iter().rev().find(|d| d.owner == Some(j as u32)).map(|d| w.attempt_in_flight(d.id)).unwrap_or(false)
                };
                if surely_waiting && self.reqs[j].had_idle_at_issue {
                    self.out.count("probe.retried_waiter_judged");
                }
                if self.reqs[j].had_idle_at_issue && !surely_waiting {
                    if h2 {
                        continue;
                    }
                    // This request may or may not have a live waiter (it may hold a popped
                    // connection, or be a pure waiter that was released): the connection went to it
                    // or to somebody behind it. Nobody from here on can be judged any more.
                    for k in &cands[pos..] {
                        self.reqs[*k].had_idle_at_issue = true;
                    }
                    break;
                }
                self.reqs[j].expect = Some((c, cur_step));
                // "every state change that lets a request proceed wakes it": the connection was sent
                // down this request's waiter channel in this step, which wakes the task that last
                // polled the receiver - if the request was polled at all
                if self.reqs[j].polls > 0 && !self.reqs[j].waker.woken.load(Ordering::SeqCst) {
                    let detail = format!(
                        "connection {} was made available to request {} (a live waiter, polled {} times) at step {}, but the request's waker was not invoked",
                        c, j, self.reqs[j].polls, cur_step
                    );
                    self.viol("C03", "handback_did_not_wake", json!({"h2": h2}), detail.clone());
                    // the same event seen from C14: a request that is not woken has no "next
                    // poll" at which to take the connection - it goes on waiting for its own dial
                    self.viol("C14", "freed_connection_did_not_wake_waiter", json!({"h2": h2}), detail);
                }
                if h2 {
                    // a shareable connection is cloned to every live waiter
                    self.out.count("probe.h2_registration_with_live_waiters");
                    continue;
                }
                // the harness' belief "idle in the pool" no longer holds: it sits in a waiter channel
                self.w.lock().conns[c].idle_since = None;
                self.out.count("probe.handback_with_live_waiter");
                break;
            }
        }

        // ---- C04: an open connection released by a finished request is kept. A connection that
        // was destroyed in this step while the pool is alive, although it is an open, non-upgraded
        // HTTP/1 connection all of whose exchanges were delivered, was thrown away by the pool
        // (no idle limit or idle timeout can be the reason under the conditions below).
        if self.svc.is_some() && !matches!(step, Step::DropService) && self.case.cfg.max_idle >= 16 && self.case.cfg.idle_timeout_ms.is_none() {
            let found = {
                let w = self.w.lock();
                let now = w.step;
                w.conns
                    .iter()
                    .find(|c| {
                        c.destroyed_step == Some(now)
                            && !c.h2
                            && c.open
                            && !c.upgraded
                            && c.handoffs > 0
                            && w.exchs.iter().any(|e| e.conn == c.id)
                            && w.exchs.iter().filter(|e| e.conn == c.id).all(|e| e.state == AsyncState::Taken)
                    })
                    .map(|c| (c.id, c.origin.clone(), c.busy))
            };
            if let Some((c, o, busy)) = found {
                self.viol(
                    "C04",
                    "released_connection_destroyed",
                    json!({"busy_at_release": busy}),
                    format!("open HTTP/1 connection {} to {} was destroyed by the pool after its request had finished (every response on it was delivered; still receiving the body at release: {})", c, o, busy),
                );
                // C14: the connection was released while a request of its origin was waiting - that
                // request is not served by it, it goes on waiting for its own dial
                let waiting: Vec<usize> = {
                    let w = self.w.lock();
                    (0..self.reqs.len())
                        .filter(|j| self.reqs[*j].state == RState::Pending && self.reqs[*j].polls > 0 && w.req_origin[*j] == o && !w.handoffs.iter().any(|x| x.req == *j as u32))
                        .collect()
                };
                if !waiting.is_empty() {
                    self.viol(
                        "C14",
                        "released_connection_destroyed_under_waiter",
                        json!({"busy_at_release": busy}),
                        format!("open HTTP/1 connection {} to {} was released while request(s) {:?} were waiting for a connection to that origin, and the pool destroyed it instead of handing it over", c, o, waiting),
                    );
                }
            }
        }

        // ---- C15: retained idle connections per origin
        {
            let w = self.w.lock();
            let mut per_origin: BTreeMap<String, usize> = BTreeMap::new();
            for c in &w.conns {
                if !c.h2 && c.handles_live > 0 && c.open && !c.upgraded && c.holders.is_empty() && !c.busy && c.idle_since.is_some() {
                    *per_origin.entry(c.origin.clone()).or_insert(0) += 1;
                }
            }
            let max_idle = self.case.cfg.max_idle;
            let mut found = None;
            for (o, retained) in per_origin {
                // right after a cancel a connection may be travelling back to the pool inside a
                // dropped waiter channel (held by a hand-back task that has not run yet)
                // (two configured origins may be spellings of one: any of them dirty counts)
                let dirty = self.case.cfg.origins.iter().enumerate().any(|(i, u)| u.parse::<http::Uri>().map(|u| origin_of(&u) == o).unwrap_or(false) && self.dirty_since_cancel[i]);
                if dirty {
                    continue;
                }
                let waiting = self
                    .reqs
                    .iter()
                    .enumerate()
                    .filter(|(j, r)| r.state == RState::Pending && w.req_origin[*j] == o && !w.handoffs.iter().any(|x| x.req == *j as u32))
                    // a connection travels to a waiting request through its waiter channel, which
                    // wakes it; at its next poll it takes the connection. Only a request that has
                    // not been polled since can have one in transit.
                    .filter(|(_, r)| r.polls == 0 || r.waker.woken.load(Ordering::SeqCst))
                    .count();
                let surely_idle = retained - retained.min(waiting);
                if surely_idle > max_idle {
                    found = Some((o, retained, waiting));
                    break;
                }
                if retained == max_idle && max_idle > 0 {
                    // reach probe: the limit was met exactly
                }
            }
            drop(w);
            if let Some((o, retained, waiting)) = found {
                self.viol(
                    "C15",
                    "too_many_idle",
                    json!({"max_idle": max_idle.min(3)}),
                    format!(
                        "{} open idle HTTP/1 connections retained for {} with {} pending requests; max_idle_per_host = {}",
                        retained, o, waiting, max_idle
                    ),
                );
            }
        }

        // ---- abstract state for the distinct-interleavings measure
        {
            let w = self.w.lock();
            self.sig.push(step.kind());
            for (j, r) in self.reqs.iter().enumerate() {
                let cls = match &r.state {
                    RState::Pending => {
                        if w.exchs.iter().any(|e| e.req == Some(j as u32) && e.state == AsyncState::Pending) {
                            5
                        } else if let Some(d) = w.dials.iter().rev().find(|d| d.owner == Some(j as u32)) {
                            match d.state {
                                AsyncState::Pending | AsyncState::Ok => 3,
                                AsyncState::Taken => 4,
                                _ => 2,
                            }
                        } else if r.polls == 0 {
                            1
                        } else {
                            2
                        }
                    }
                    RState::DoneOk => 6,
                    RState::DoneErr(_) => 7,
                    RState::Cancelled => 8,
                    RState::Panicked => 9,
                };
                self.sig.push(cls * 4 + if r.ver == Ver::H2 { 1 } else { 0 });
            }
            for c in &w.conns {
                let cls = (c.h2 as u64)
                    | (c.open as u64) << 1
                    | (c.busy as u64) << 2
                    | ((!c.holders.is_empty()) as u64) << 3
                    | (c.idle_since.is_some() as u64) << 4
                    | ((c.handles_live > 0) as u64) << 5;
                self.sig.push(cls);
            }
        }
        self.w.lock().step += 1;
    }

    // ---------------------------------------------------------------- drain + probe
    async fn drain(&mut self) {
        self.draining = true;
        // back-pressure ends: from here on everything must be able to finish
        self.step_now(Step::Gate { transport: true, open: true }).await;
        self.step_now(Step::Gate { transport: false, open: true }).await;
        for _round in 0..200 {
            let mut progress = false;
            // resolve everything outstanding, fault-free, in id order
            let (dials, hss, exchs, busy): (Vec<u32>, Vec<u32>, Vec<u32>, Vec<u32>) = {
                let w = self.w.lock();
                (
                    w.dials.iter().filter(|d| d.state == AsyncState::Pending).filter_map(|d| d.owner).collect(),
                    w.hss.iter().filter(|h| h.state == AsyncState::Pending).filter_map(|h| w.dials[h.dial].owner).collect(),
                    w.exchs.iter().filter(|e| e.state == AsyncState::Pending).filter_map(|e| e.req).collect(),
                    w.conns
                        .iter()
                        .filter(|c| !c.h2 && c.busy && c.open && !c.upgraded)
                        .filter_map(|c| w.dials[c.dial].owner)
                        .collect(),
                )
            };
            for r in dials {
                progress |= self.step_now(Step::DialOk { req: r }).await;
            }
            for r in hss {
                progress |= self.step_now(Step::HsOk { req: r }).await;
            }
            for r in exchs {
                progress |= self.step_now(Step::Respond { req: r }).await;
            }
            for r in busy {
                progress |= self.step_now(Step::ConnReady { conn_of: r }).await;
            }
            let ev_before = self.w.lock().events;
            self.step_now(Step::Bg).await;
            progress |= self.w.lock().events != ev_before;
            // poll what a real executor would poll: woken or never-polled futures
            let due: Vec<u32> = self
                .reqs
                .iter()
                .enumerate()
                .filter(|(_, r)| r.state == RState::Pending && (r.polls == 0 || r.waker.woken.load(Ordering::SeqCst)))
                .map(|(i, _)| i as u32)
                .collect();
            for r in due {
                progress |= self.step_now(Step::Poll { req: r }).await;
            }
            if !progress {
                break;
            }
        }
        // C19: everything outstanding has been resolved, fault-free, and whoever was woken has been
        // polled. A request that is still pending now is waiting for nothing - its own deadline
        // will end it, which hides the fact from the liveness check below. If an earlier request
        // to the same origin had timed out before this one was issued, this is "the pool left
        // unable to serve subsequent requests to that origin".
        if self.case.cfg.timeout_ms.is_some() && !self.service_dropped {
            let stuck: Vec<usize> = (0..self.reqs.len()).filter(|i| self.reqs[*i].state == RState::Pending && self.reqs[*i].polls > 0).collect();
            for r in stuck {
                let (o, issued) = (self.reqs[r].origin, self.reqs[r].issue_ms);
                let earlier = self
                    .reqs
                    .iter()
                    .position(|q| q.origin == o && q.state == RState::DoneErr("timeout".into()) && q.done_ms.map(|t| t <= issued).unwrap_or(false));
                if let Some(q) = earlier {
                    let stage = self.request_stage(r as u32);
                    self.viol(
                        "C19",
                        "pool_unusable_after_timeout",
                        json!({"state": "later_request_stranded"}),
                        format!("request {} timed out; request {} to the same origin, issued afterwards, is still pending (stage {}) although every outstanding attempt has been resolved - only its own deadline will end it", q, r, stage),
                    );
                }
            }
        }
        // if a request timeout is configured, let every deadline pass: each request must resolve
        if self.case.cfg.timeout_ms.is_some() && self.reqs.iter().any(|r| r.state == RState::Pending) {
            let d = self.case.cfg.timeout_ms.unwrap();
            self.step_now(Step::Advance { ms: d + 1 }).await;
            let due: Vec<u32> = self
                .reqs
                .iter()
                .enumerate()
                .filter(|(_, r)| r.state == RState::Pending && r.waker.woken.load(Ordering::SeqCst))
                .map(|(i, _)| i as u32)
                .collect();
            for r in due {
                self.step_now(Step::Poll { req: r }).await;
            }
        }
        // ---- C03: nobody may be left pending now
        let pending: Vec<u32> = self
            .reqs
            .iter()
            .enumerate()
            .filter(|(_, r)| r.state == RState::Pending)
            .map(|(i, _)| i as u32)
            .collect();
        for r in pending {
            let kind = self.request_stage(r);
            let fate = self.owner_fate(r);
            self.step_now(Step::Poll { req: r }).await; // forced poll, without a wake-up
            let still = self.reqs[r as usize].state == RState::Pending;
            if still {
                self.viol(
                    "C03",
                    "stranded",
                    json!({"kind": kind, "owner": fate}),
                    format!(
                        "request {} ({:?}) is still pending after every outstanding attempt was resolved and background work quiesced (stage {}, owner attempt: {}); it was never woken",
                        r, self.reqs[r as usize].ver, kind, fate
                    ),
                );
                if !self.preempted.is_empty() {
                    // C14: an abandoned attempt "leaves nothing behind" - a request that waits for an
                    // attempt nobody is making any more is waiting for what one left behind
                    self.viol(
                        "C14",
                        "abandoned_attempt_left_something_behind",
                        json!({"seen": "stranded_request", "continue": self.case.cfg.continue_after_preemption}),
                        format!("after {} attempt(s) had been abandoned (pre-empted or cancelled), request {} waits for ever although nothing is outstanding (stage {}, owner attempt: {})", self.preempted.len(), r, kind, fate),
                    );
                }
            } else {
                self.viol(
                    "C03",
                    "lost_wakeup",
                    json!({"kind": kind, "owner": fate}),
                    format!("request {} became ready on a forced poll although it was never woken (stage {}, owner {})", r, kind, fate),
                );
            }
        }
        // ---- C14: abandoned attempts (continue_after_preemption = true) must end up in the pool
        if self.case.cfg.continue_after_preemption && !self.service_dropped {
            let list = self.preempted.clone();
            for (d, step) in list {
                let w = self.w.lock();
                let dial = &w.dials[d];
                let dropped = dial.state == AsyncState::Dropped
                    || dial.hs.map(|h| w.hss[h].state == AsyncState::Dropped).unwrap_or(false);
                let failed = dial.state == AsyncState::Failed || dial.hs.map(|h| w.hss[h].state == AsyncState::Failed).unwrap_or(false);
                let conn = dial.conn;
                let origin = dial.origin.clone();
                let lost = match conn {
                    Some(c) => {
                        let cc = &w.conns[c];
                        let idle_now = w
                            .conns
                            .iter()
                            .filter(|x| x.origin == origin && !x.h2 && x.handles_live > 0 && x.idle_since.is_some())
                            .count();
                        let never_pooled = if cc.h2 { cc.taken_step.is_none() } else { !cc.ever_handed_back && cc.handoffs == 0 };
                        cc.open && !cc.upgraded && cc.handles_live <= 0 && cc.close_step.is_none() && never_pooled && idle_now < self.case.cfg.max_idle
                    }
                    None => false,
                };
                drop(w);
                if failed {
                    continue;
                }
                if dropped {
                    self.viol(
                        "C14",
                        "abandoned_lost",
                        json!({"how": "attempt_dropped"}),
                        format!("continue_after_preemption=true but the attempt (dial {}) abandoned at step {} was dropped instead of completing in the background", d, step),
                    );
                } else if lost {
                    self.viol(
                        "C14",
                        "abandoned_lost",
                        json!({"how": "connection_not_pooled"}),
                        format!("continue_after_preemption=true: the attempt (dial {}) abandoned at step {} completed but its connection did not end up in the pool", d, step),
                    );
                } else {
                    self.out.count("probe.abandoned_attempt_completed_in_background");
                }
            }
        }
    }

    fn owner_fate(&self, r: u32) -> String {
        // what happened to the attempt this request was (probably) waiting for
        let w = self.w.lock();
        let ostr = &w.req_origin[r as usize];
        let issue = w.req_issue_step[r as usize];
        if w.dials.iter().any(|d| d.owner == Some(r)) {
            return "own_attempt".into();
        }
        // latest attempt for the origin owned by a request that was issued before this one
        let owner = w.dials.iter().rev().find(|d| {
            &d.origin == ostr
                && d.owner != Some(r)
                && d.owner.and_then(|o| w.req_issue_step.get(o as usize)).map(|s| *s <= issue).unwrap_or(false)
        });
        match owner {
            None => "no_attempt".into(),
            Some(d) => {
                let owner_cancelled = d
                    .owner
                    .and_then(|o| self.reqs.get(o as usize))
                    .map(|s| s.state == RState::Cancelled)
                    .unwrap_or(false);
                let base = match d.state {
                    AsyncState::Failed => "dial_failed",
                    AsyncState::Dropped => "attempt_dropped",
                    AsyncState::Taken => match d.hs.map(|h| w.hss[h].state) {
                        Some(AsyncState::Failed) => "handshake_failed",
                        Some(AsyncState::Dropped) => "attempt_dropped",
                        Some(AsyncState::Taken) => "attempt_succeeded",
                        _ => "attempt_unfinished",
                    },
                    _ => "attempt_unfinished",
                };
                if owner_cancelled && base == "attempt_dropped" {
                    "owner_cancelled".into()
                } else {
                    base.into()
                }
            }
        }
    }

    async fn probe(&mut self) {
        if self.svc.is_none() {
            return;
        }
        let used: Vec<usize> = {
            // (a scheme-less CONNECT target names no origin: such a request is refused, probe or not)
            let mut u: Vec<usize> = self.reqs.iter().map(|r| r.origin).filter(|o| self.case.cfg.origins[*o].contains("://")).collect();
            u.sort();
            u.dedup();
            u
        };
        for o in used {
            let id = self.reqs.len() as u32;
            let dials_before = self.w.lock().dials.len();
            if !self.step_now_probe(id, o).await {
                continue;
            }
            for _ in 0..40 {
                if self.reqs[id as usize].state != RState::Pending {
                    break;
                }
                self.step_now(Step::Poll { req: id }).await;
                self.step_now(Step::DialOk { req: id }).await;
                self.step_now(Step::HsOk { req: id }).await;
                self.step_now(Step::Respond { req: id }).await;
                self.step_now(Step::Bg).await;
            }
            let st = self.reqs[id as usize].state.clone();
            let own_zero_deadline = self.case.cfg.timeout_ms == Some(0) && st == RState::DoneErr("timeout".into());
            if own_zero_deadline {
                // a zero timeout expires at the probe's own first poll; says nothing about the pool
                self.out.count("probe.probe_hit_its_own_zero_deadline");
            } else if st != RState::DoneOk && st != RState::Panicked {
                self.viol(
                    "C03",
                    "probe_failed",
                    json!({"state": match &st { RState::Pending => "pending", RState::DoneErr(_) => "error", _ => "other" }}),
                    format!("a fresh request to {} after the drain did not complete successfully: {:?}", self.case.cfg.origins[o], st),
                );
                if !self.preempted.is_empty() {
                    self.viol(
                        "C14",
                        "abandoned_attempt_left_something_behind",
                        json!({"seen": "probe_failed", "continue": self.case.cfg.continue_after_preemption}),
                        format!("after {} attempt(s) had been abandoned (pre-empted or cancelled), a fresh request to {} did not complete: {:?}", self.preempted.len(), self.case.cfg.origins[o], st),
                    );
                }
                if self.case.cfg.timeout_ms.is_some() {
                    self.viol(
                        "C19",
                        "pool_unusable_after_timeout",
                        json!({"state": "probe_failed"}),
                        format!("follow-up request to {} failed: {:?}", self.case.cfg.origins[o], st),
                    );
                }
            } else {
                self.out.count("probe.probe_request_served");
                if self.w.lock().dials.len() == dials_before {
                    self.out.count("probe.probe_served_without_dial");
                }
            }
            // leave the probe's connection ready for the next origin
            self.step_now(Step::ConnReady { conn_of: id }).await;
            self.step_now(Step::Bg).await;
        }
    }

    async fn step_now_probe(&mut self, id: u32, o: usize) -> bool {
        self.sync_clock();
        let ok = self.do_issue(id, o, Ver::H11, true);
        if ok {
            self.lmap.insert(1000 + id, id);
            self.rmap.push(1000 + id);
        }
        let s = Step::Issue { req: id, origin: o, ver: Ver::H11 };
        self.after_step(&s);
        ok
    }

    async fn step_now(&mut self, s: Step) -> bool {
        let ok = self.apply_slots(&s).await;
        if ok {
            self.after_step(&s);
        }
        ok
    }

    // ---------------------------------------------------------------- C19 after the fact
    fn check_timeouts(&mut self) {
        let Some(d) = self.case.cfg.timeout_ms else { return };
        for i in 0..self.reqs.len() {
            let r = &self.reqs[i];
            if r.is_probe {
                continue;
            }
            let deadline = r.issue_ms + d;
            match (&r.state, r.done_ms) {
                (RState::DoneErr(e), Some(t)) if e == "timeout" => {
                    if t < deadline {
                        let (iss, dd) = (r.issue_ms, d);
                        self.viol(
                            "C19",
                            "timeout_too_early",
                            json!({"d": dd.min(50)}),
                            format!("request {} issued at {} ms got the timeout error at {} ms, before its deadline {} ms", i, iss, t, deadline),
                        );
                    }
                }
                _ => {}
            }
        }
        // no hand-off after a request timed out
        let w = self.w.lock();
        let mut late = vec![];
        for h in &w.handoffs {
            let r = &self.reqs[h.req as usize];
            if let (RState::DoneErr(e), Some(t)) = (&r.state, r.done_ms) {
                if e == "timeout" && h.ms > t {
                    late.push((h.req, h.conn, h.ms, t));
                }
            }
        }
        drop(w);
        for (r, c, ms, t) in late {
            self.viol(
                "C19",
                "handoff_after_timeout",
                json!({"kind": "late_handoff"}),
                format!("request {} timed out at {} ms but was handed connection {} at {} ms", r, t, c, ms),
            );
        }
    }
}

impl ReqSlot {
    fn origin_str_eq(&self, w: &World, i: usize, ostr: &str) -> bool {
        w.req_origin.get(i).map(|o| o == ostr).unwrap_or(false)
    }
}

impl PoolSim {
    fn run(&self, case: &PoolCase, record: bool) -> (Outcome, Vec<Step>) {
        simrt::install_panic_hook();
        let _ = simrt::take_panics();
        let rt = simrt::runtime();
        let mut gen_rng = Rng::keyed(case.seed, "pool/steps");
        let faulty = Rng::keyed(case.seed, "pool/faulty").below(3) != 0;
        let weights = weights_for(&case.profile, &mut Rng::keyed(case.seed, "pool/weights"), faulty);
        struct Contended;
        impl Drop for Contended {
            fn drop(&mut self) {
                hyperdriver::verif_hooks::set_pool_lock_contended(false);
            }
        }
        let _contended = Contended;
        hyperdriver::verif_hooks::set_pool_lock_contended(case.cfg.pool_lock_contended);
        let w: W = Arc::new(Mutex::new(World::default()));
        let mut pc = PoolConfig::default();
        // (u64::MAX stands for Duration::MAX, the "never expire" idiom: it cannot be subtracted from an Instant)
        pc.idle_timeout = case.cfg.idle_timeout_ms.map(|ms| if ms == u64::MAX { Duration::MAX } else { Duration::from_millis(ms) });
        pc.max_idle_per_host = case.cfg.max_idle;
        pc.continue_after_preemption = case.cfg.continue_after_preemption;
        let build = || -> PoolSvc {
            ConnectionPoolService::new(SimTransport { w: w.clone() }, SimProtocol { w: w.clone() }, RecSvc { w: w.clone(), inner: RequestExecutor::new() }, pc.clone())
        };
        let pool_svc: PoolSvc = if case.cfg.built_on_other_runtime {
            // built while another runtime's context is entered; that runtime is gone before first use
            let other = simrt::runtime();
            let svc = {
                let _g = other.enter();
                build()
            };
            drop(other);
            svc
        } else {
            let _g = rt.enter();
            build()
        };
        let (out, steps) = rt.block_on(async {
            {
                let mut ww = w.lock();
                ww.idle_timeout_ms = case.cfg.idle_timeout_ms;
                ww.open_while_busy = case.cfg.open_while_busy;
                ww.lazy_send = case.cfg.lazy_send;
                ww.deref_send = case.cfg.deref_send;
                ww.trace = std::env::var("VERIF_TRACE").is_ok();
                ww.t0 = Some(tokio::time::Instant::now());
                for i in &case.cfg.alpn_h2 {
                    if let Some(o) = case.cfg.origins.get(*i) {
                        let uri: http::Uri = o.parse().expect("origin");
                        ww.alpn_h2_origins.push(origin_of(&uri));
                    }
                }
            }
            let svc = match case.cfg.timeout_ms {
                Some(d) => Svc::Timed(Timeout::new(pool_svc, Duration::from_millis(d), Box::new(timeout_error as fn() -> ClientError))),
                None => Svc::Plain(pool_svc),
            };
            let svc2 = svc.another_handle();
            let mut run = Run {
                case,
                w,
                svc: Some(svc),
                svc2: Some(svc2),
                reqs: vec![],
                out: Outcome::default(),
                sig: Digest::default(),
                rng: gen_rng.clone(),
                weights,
                faulty,
                executed: vec![],
                t0: tokio::time::Instant::now(),
                seen_dials: 0,
                seen_handoffs: 0,
                noop_steps: 0,
                service_dropped: false,
                checkout_ended: vec![],
                unpolled_cancel: vec![],
                preempted: vec![],
                draining: false,
                lmap: BTreeMap::new(),
                rmap: vec![],
                dirty_since_cancel: vec![false; case.cfg.origins.len()],
                woken_before_step: vec![],
                kept_futs: vec![],
                flooded: false,
            };
            match &case.steps {
                Some(steps) => {
                    for s in steps {
                        if run.apply(s).await {
                            run.after_step(s);
                            if record {
                                run.executed.push(s.clone());
                            }
                        } else {
                            run.noop_steps += 1;
                        }
                    }
                }
                None => {
                    for _ in 0..case.max_steps {
                        let en = run.enabled();
                        if en.is_empty() {
                            break;
                        }
                        let mut s = run.rng.weighted(&en).clone();
                        match &mut s {
                            Step::Issue { origin, ver, .. } => {
                                *origin = run.rng.usize_below(case.cfg.origins.len());
                                *ver = ver_for(&run.weights, &mut run.rng);
                            }
                            Step::Advance { ms } => *ms = run.draw_advance(),
                            _ => {}
                        }
                        if run.apply(&s).await {
                            run.after_step(&s);
                            run.executed.push(s);
                        }
                    }
                }
            }
            let _ = &mut gen_rng;
            run.drain().await;
            run.probe().await;
            run.check_timeouts();
            // teardown: drop everything inside the runtime so that Drop impls can use it
            let reqs = std::mem::take(&mut run.reqs);
            let n_reqs = reqs.len();
            let r = catch_unwind(AssertUnwindSafe(move || drop(reqs)));
            if r.is_err() {
                run.note_panics(None, "teardown");
            }
            run.svc = None;
            for _ in 0..4 {
                tokio::task::yield_now().await;
            }
            run.note_panics(None, "teardown");
            let w = run.w.lock();
            let mut out = std::mem::take(&mut run.out);
            out.log_digest = w.log.0 ^ w.commutative ^ crate::rng::splitmix64(out.violations.len() as u64);
            out.abstract_sig = run.sig.0;
            out.sim_ms = w.now_ms;
            out.faulty = run.faulty;
            let reused = w.handoffs.iter().filter(|h| !h.fresh).count();
            out.nontrivial = n_reqs >= 2 && (reused > 0 || w.dials.len() >= 2);
            out.add("steps_executed", w.step as u64);
            out.add("noop_steps_on_replay", run.noop_steps);
            drop(w);
            (out, std::mem::take(&mut run.executed))
        });
        drop(rt);
        (out, steps)
    }
}

impl Scenario for PoolSim {
    type Case = PoolCase;

    fn engine(&self) -> &'static str {
        "poolsim"
    }

    fn info(&self) -> ScenarioInfo {
        ScenarioInfo {
            rule: format!(
                "profile {}: seeded step lists (issue/poll/cancel/dial ok|fail/handshake ok|fail/respond/upgrade/conn ready/conn close/background/advance clock/drop service) over <=7 requests, 1-4 origins, HTTP/1.1 + HTTP/2, pool config drawn per run (idle_timeout, max_idle_per_host, continue_after_preemption, optional Timeout layer); each run ends with a fault-free drain and a probe request per origin. Non-trivial: >=2 requests and (a reused hand-off or >=2 dials). distinct = hash of the sequence of (step kind, abstract request-state vector, abstract connection-state vector) with ids and times removed.",
                self.property
            ),
            real: vec![
                "ConnectionPoolService::{call,connect_to}, ResponseFuture",
                "Pool::checkout, PoolInner::{push,pop,cancel_connection}, IdleConnections, TokenMap/UriKey",
                "Checkout (+Waiting, as_delayed, PinnedDrop, register_connected), Connector::poll_connector",
                "Pooled (+Drop), WhenReady, RequestExecutor/execute_request, service::Timeout",
                "tokio current-thread scheduler + paused clock (spawned hand-back and delayed-checkout tasks)",
            ],
            stub: vec![
                "transport (SimTransport: a dial is a future the simulator resolves)",
                "protocol handshake (SimProtocol)",
                "connection (SimConn: open/busy/upgraded/shareable modelled after HttpConnection)",
                "remote server (responses are simulator events)",
            ],
            assumptions: vec![
                "the unit of interleaving is one poll/drop of one future (pool state sits behind one mutex); interleavings inside a poll across threads are not explored",
                "SimConn models HttpConnection: is_open = open && (h2 || !busy), can_share = h2, reuse = clone for h2 only",
                "situations in which several pending requests compete for an idle connection are not judged for avoidable dials (sound, not complete)",
            ],
        }
    }

    fn num_cases(&self, tier: Tier) -> (u64, u64) {
        match tier {
            // (C05's rarest scenario - an idle HTTP/1 connection, an HTTP/2 request that leaves it
            // alone and loses its own connection, a third request on the far side of the timeout -
            // shows up about once in 300 000 runs: that profile gets five times as many)
            Tier::Quick => (0, if self.property == "C05" { 1_500_000 } else { 300_000 }),
            Tier::Thorough => (0, 20_000_000),
        }
    }

    fn case(&self, _index: u64, seed: u64, _tier: Tier) -> PoolCase {
        let mut r = Rng::keyed(seed, "pool/cfg");
        let cfg = gen_cfg(self.property, &mut r);
        let max_steps = *r.pick(&[12usize, 20, 30, 45, 60]);
        PoolCase { profile: self.property.to_string(), seed, cfg, max_steps, steps: None }
    }

    fn execute(&self, case: &PoolCase) -> Outcome {
        self.run(case, false).0
    }

    fn shrink(&self, case: &PoolCase) -> Vec<PoolCase> {
        let Some(steps) = &case.steps else {
            // materialise the explicit step list first
            let (_, steps) = self.run(case, true);
            let mut c = case.clone();
            c.steps = Some(steps);
            return vec![c];
        };
        let mut v = vec![];
        let n = steps.len();
        // drop chunks, then single steps
        let mut chunk = n / 2;
        while chunk >= 2 {
            let mut i = 0;
            while i + chunk <= n {
                let mut c = case.clone();
                let mut s = steps.clone();
                s.drain(i..i + chunk);
                c.steps = Some(s);
                v.push(c);
                i += chunk;
            }
            chunk /= 2;
        }
        for i in (0..n).rev() {
            let mut c = case.clone();
            let mut s = steps.clone();
            s.remove(i);
            c.steps = Some(s);
            v.push(c);
        }
        // simplify configuration
        if case.cfg.open_while_busy {
            let mut c = case.clone();
            c.cfg.open_while_busy = false;
            v.push(c);
        }
        if case.cfg.pool_lock_contended {
            let mut c = case.clone();
            c.cfg.pool_lock_contended = false;
            v.push(c);
        }
        if case.cfg.built_on_other_runtime {
            let mut c = case.clone();
            c.cfg.built_on_other_runtime = false;
            v.push(c);
        }
        if case.cfg.lazy_send {
            let mut c = case.clone();
            c.cfg.lazy_send = false;
            v.push(c);
        }
        if case.cfg.idle_timeout_ms.is_some() {
            let mut c = case.clone();
            c.cfg.idle_timeout_ms = None;
            v.push(c);
        }
        if case.cfg.timeout_ms.is_some() {
            let mut c = case.clone();
            c.cfg.timeout_ms = None;
            v.push(c);
        }
        if !case.cfg.alpn_h2.is_empty() {
            let mut c = case.clone();
            c.cfg.alpn_h2.clear();
            v.push(c);
        }
        if case.cfg.max_idle != 32 {
            let mut c = case.clone();
            c.cfg.max_idle = 32;
            v.push(c);
        }
        // simpler steps: HTTP/2 -> HTTP/1.1, origin -> 0, spurious advance -> 1ms
        for (i, s) in steps.iter().enumerate() {
            match s {
                Step::Issue { req, origin, ver } => {
                    if *ver != Ver::H11 {
                        let mut c = case.clone();
                        c.steps.as_mut().unwrap()[i] = Step::Issue { req: *req, origin: *origin, ver: Ver::H11 };
                        v.push(c);
                    }
                    if *origin != 0 {
                        let mut c = case.clone();
                        c.steps.as_mut().unwrap()[i] = Step::Issue { req: *req, origin: 0, ver: *ver };
                        v.push(c);
                    }
                }
                Step::Advance { ms } if *ms > 1 => {
                    let mut c = case.clone();
                    c.steps.as_mut().unwrap()[i] = Step::Advance { ms: 1 };
                    v.push(c);
                }
                _ => {}
            }
        }
        v
    }

    fn sample(&self, case: &PoolCase) -> serde_json::Value {
        // samples show the explicit step list, which is what a run "looks like"
        let (_, steps) = self.run(case, true);
        json!({"profile": case.profile, "cfg": case.cfg, "steps": steps})
    }
}
