//! Engine A stubs: simulated transport, protocol and connection whose every completion is an
//! explicit simulator event, plus the recording inner service (hand-off observation point).

use std::future::Future;
use std::pin::Pin;
use std::sync::Arc;
use std::task::{Context, Poll, Waker};

use bytes::Bytes;
use http_body_util::Empty;
use hyperdriver::client::conn::connection::ConnectionError;
use hyperdriver::client::conn::protocol::HttpProtocol;
use hyperdriver::client::conn::{Connection, ProtocolRequest};
use hyperdriver::client::pool::{PoolableConnection, PoolableStream, Pooled};
use hyperdriver::info::{ConnectionInfo, HasConnectionInfo};
use hyperdriver::service::{ExecuteRequest, RequestExecutor};
use parking_lot::Mutex;

pub type SimBody = Empty<Bytes>;
pub type W = Arc<Mutex<World>>;

#[derive(Clone, Copy, Debug, PartialEq, Eq, Hash)]
pub struct ReqId(pub u32);

#[derive(Clone, Copy, Debug, PartialEq, Eq)]
pub enum AsyncState {
    Pending,
    Ok,
    Failed,
    /// the future was dropped before it resolved (attempt abandoned)
    Dropped,
    /// resolved and observed by the library
    Taken,
}

#[derive(Debug)]
pub struct Dial {
    pub id: usize,
    pub owner: Option<u32>,
    pub origin: String,
    pub uri: String,
    pub h2_requested: bool,
    pub state: AsyncState,
    pub waker: Option<Waker>,
    pub start_step: usize,
    pub hs: Option<usize>,
    pub conn: Option<usize>,
    /// the library has seen the outcome (future returned Ready) or dropped the future
    pub observed: bool,
}

#[derive(Debug)]
pub struct Hs {
    pub id: usize,
    pub dial: usize,
    pub h2: bool,
    pub state: AsyncState,
    pub waker: Option<Waker>,
    pub conn: Option<usize>,
    pub observed: bool,
}

#[derive(Debug)]
pub struct Conn {
    pub id: usize,
    pub dial: usize,
    pub origin: String,
    pub h2: bool,
    pub open: bool,
    pub busy: bool,
    pub upgraded: bool,
    pub handles_live: i64,
    pub ready_wakers: Vec<Waker>,
    pub created_step: usize,
    pub created_ms: u64,
    pub close_step: Option<usize>,
    /// requests currently holding a handle of this connection (between hand-off and release)
    pub holders: Vec<u32>,
    pub handoffs: u32,
    pub last_handoff_step: Option<usize>,
    pub release_step: Option<usize>,
    /// step at which WhenReady observed Ready(Ok) while nobody held the connection
    pub handback_step: Option<usize>,
    pub handback_ms: Option<u64>,
    /// Some(ms) while the harness believes the connection sits handed-back and not handed off
    pub idle_since: Option<u64>,
    /// last instant the connection was created / handed off / handed back
    pub last_activity_ms: u64,
    pub destroyed_step: Option<usize>,
    /// poll_ready was called while nobody held it (a WhenReady task exists)
    pub awaiting_handback: bool,
    /// step at which a checkout obtained the freshly established connection (and registered it)
    pub taken_step: Option<usize>,
    pub ever_handed_back: bool,
    /// last step at which the pool (may have) moved this connection: hand-off, hand-back,
    /// check-out by an issued request, return by a cancelled one
    pub last_touch_step: usize,
}

#[derive(Debug)]
pub struct Exch {
    pub id: usize,
    pub req: Option<u32>,
    pub conn: usize,
    pub state: AsyncState,
    pub upgrade: bool,
    pub waker: Option<Waker>,
    pub polled_once: bool,
    /// fault: the response future panics the next time it is polled (user code below the pool -
    /// a connection implementation, a middleware - is not under the library's control)
    pub panic_next: bool,
}

#[derive(Clone, Debug)]
pub struct Handoff {
    pub step: usize,
    pub ms: u64,
    pub req: u32,
    pub conn: usize,
    pub fresh: bool,
}

#[derive(Clone, Debug)]
pub struct Flag {
    pub property: &'static str,
    pub rule: &'static str,
    pub sig: serde_json::Value,
    pub detail: String,
}

#[derive(Debug, Default)]
pub struct World {
    pub step: usize,
    pub now_ms: u64,
    pub events: u64,
    pub dials: Vec<Dial>,
    pub hss: Vec<Hs>,
    pub conns: Vec<Conn>,
    pub exchs: Vec<Exch>,
    pub handoffs: Vec<Handoff>,
    pub flags: Vec<Flag>,
    pub log: crate::rng::Digest,
    /// origins that negotiate h2 via "ALPN" whatever the request version
    pub alpn_h2_origins: Vec<String>,
    /// per request: issue step / issue ms / origin (filled by the driver)
    pub req_issue_step: Vec<usize>,
    pub req_issue_ms: Vec<u64>,
    pub req_origin: Vec<String>,
    /// snapshot at issue: (conn id, idle_since or last_activity) of connections idle for that origin
    pub req_idle_snapshot: Vec<Vec<(usize, u64)>>,
    pub idle_timeout_ms: Option<u64>,
    pub trace: bool,
    pub commutative: u64,
    pub t0: Option<tokio::time::Instant>,
    /// (is_h2, conn): HTTP/1 hand-backs and HTTP/2 registrations of the current step, in order
    pub reg_events: Vec<(bool, usize)>,
    /// the connection type reports `is_open()` while an exchange is in flight (the trait only says
    /// "the connection is open"; hyperdriver's own HttpConnection answers with its readiness)
    pub open_while_busy: bool,
    /// the connection only becomes busy when the future returned by send_request is first polled
    /// (any async-block Connection implementation; hyper's enqueues inside the call)
    pub lazy_send: bool,
    /// back-pressure: while closed, the transport's `poll_ready` answers Pending (a dial limiter,
    /// a semaphore in front of the sockets); opening wakes whoever asked
    pub transport_gate_closed: bool,
    pub transport_wakers: Vec<Waker>,
    /// the same for the service below the pool (the one that executes a request on its checked
    /// out connection: a rate or concurrency limit placed there)
    pub inner_gate_closed: bool,
    pub inner_wakers: Vec<Waker>,
    pub inner_ready_polls: u64,
    /// the service below the pool sends through the connection it reaches by dereferencing the
    /// pooled handle (`&mut *conn`), as the handle's documented Deref / DerefMut allow, instead of
    /// through the handle's own Connection impl
    pub deref_send: bool,
}

impl World {
    /// Re-read the virtual clock (library tasks run in the middle of an `Advance` step).
    pub fn tick(&mut self) -> u64 {
        if let Some(t0) = self.t0 {
            self.now_ms = tokio::time::Instant::now().duration_since(t0).as_millis() as u64;
        }
        self.now_ms
    }
    pub fn ev(&mut self, kind: u64, a: u64, b: u64) {
        self.tick();
        self.events += 1;
        if self.trace {
            eprintln!("ev step={} ms={} kind={} a={} b={}", self.step, self.now_ms, kind, a, b);
        }
        self.log.push(self.step as u64);
        self.log.push(self.now_ms);
        self.log.push(kind);
        self.log.push(a);
        self.log.push(b);
    }
    pub fn flag(&mut self, property: &'static str, rule: &'static str, sig: serde_json::Value, detail: String) {
        self.flags.push(Flag { property, rule, sig, detail });
    }
    /// The attempt behind dial `d` has not ended from the library's point of view.
    pub fn attempt_in_flight(&self, d: usize) -> bool {
        let dial = &self.dials[d];
        if !dial.observed {
            return true;
        }
        if dial.state != AsyncState::Taken {
            return false; // failed or dropped, and the library knows
        }
        match dial.hs {
            Some(h) => !self.hss[h].observed,
            None => true, // stream obtained, handshake not started yet
        }
    }
    pub fn conn_is_open(&self, c: usize) -> bool {
        let c = &self.conns[c];
        c.open && !c.upgraded && (c.h2 || !c.busy || self.open_while_busy)
    }
}

pub fn origin_of(uri: &http::Uri) -> String {
    format!(
        "{}://{}",
        uri.scheme_str().unwrap_or("").to_ascii_lowercase(),
        // user information does not select a different endpoint
        uri.authority().map(|a| a.as_str().rsplit('@').next().unwrap_or("").to_ascii_lowercase()).unwrap_or_default()
    )
}

// ------------------------------------------------------------------------------------------
// Transport

#[derive(Clone)]
pub struct SimTransport {
    pub w: W,
}

#[derive(Debug)]
pub struct SimAddr(pub usize);
impl std::fmt::Display for SimAddr {
    fn fmt(&self, f: &mut std::fmt::Formatter<'_>) -> std::fmt::Result {
        write!(f, "sim:{}", self.0)
    }
}

#[derive(Debug, thiserror::Error)]
#[error("simulated dial failure (dial {0})")]
pub struct DialError(pub usize);

pub struct SimIo {
    pub dial: usize,
    pub w: W,
}

impl HasConnectionInfo for SimIo {
    type Addr = SimAddr;
    fn info(&self) -> ConnectionInfo<SimAddr> {
        ConnectionInfo { local_addr: SimAddr(0), remote_addr: SimAddr(self.dial) }
    }
}

impl PoolableStream for SimIo {
    fn can_share(&self) -> bool {
        false
    }
}

pub struct DialFuture {
    w: W,
    id: usize,
    done: bool,
}

impl Future for DialFuture {
    type Output = Result<SimIo, DialError>;
    fn poll(mut self: Pin<&mut Self>, cx: &mut Context<'_>) -> Poll<Self::Output> {
        let mut w = self.w.lock();
        let id = self.id;
        match w.dials[id].state {
            AsyncState::Pending => {
                w.dials[id].waker = Some(cx.waker().clone());
                Poll::Pending
            }
            AsyncState::Ok => {
                w.dials[id].state = AsyncState::Taken;
                w.dials[id].observed = true;
                w.ev(11, id as u64, 0);
                drop(w);
                self.done = true;
                Poll::Ready(Ok(SimIo { dial: id, w: self.w.clone() }))
            }
            AsyncState::Failed => {
                w.dials[id].observed = true;
                w.ev(12, id as u64, 0);
                drop(w);
                self.done = true;
                Poll::Ready(Err(DialError(id)))
            }
            s => panic!("harness: dial future polled in state {:?}", s),
        }
    }
}

impl Drop for DialFuture {
    fn drop(&mut self) {
        if !self.done {
            let mut w = self.w.lock();
            let id = self.id;
            if matches!(w.dials[id].state, AsyncState::Pending | AsyncState::Ok) {
                w.dials[id].state = AsyncState::Dropped;
                w.dials[id].observed = true;
                w.ev(13, id as u64, 0);
            }
        }
    }
}

impl tower::Service<http::request::Parts> for SimTransport {
    type Response = SimIo;
    type Error = DialError;
    type Future = DialFuture;

    fn poll_ready(&mut self, cx: &mut Context<'_>) -> Poll<Result<(), Self::Error>> {
        let mut w = self.w.lock();
        if w.transport_gate_closed {
            w.transport_wakers.push(cx.waker().clone());
            return Poll::Pending;
        }
        Poll::Ready(Ok(()))
    }

    fn call(&mut self, parts: http::request::Parts) -> Self::Future {
        let mut w = self.w.lock();
        let id = w.dials.len();
        let owner = parts.extensions.get::<ReqId>().map(|r| r.0);
        let step = w.step;
        w.dials.push(Dial {
            id,
            owner,
            origin: origin_of(&parts.uri),
            uri: parts.uri.to_string(),
            h2_requested: parts.version == http::Version::HTTP_2,
            state: AsyncState::Pending,
            waker: None,
            start_step: step,
            hs: None,
            conn: None,
            observed: false,
        });
        w.ev(10, id as u64, owner.map(|o| o as u64).unwrap_or(999));
        DialFuture { w: self.w.clone(), id, done: false }
    }
}

// ------------------------------------------------------------------------------------------
// Protocol

#[derive(Clone)]
pub struct SimProtocol {
    pub w: W,
}

pub struct HsFuture {
    w: W,
    id: usize,
    done: bool,
    _io: SimIo,
}

impl Future for HsFuture {
    type Output = Result<SimConn, ConnectionError>;
    fn poll(mut self: Pin<&mut Self>, cx: &mut Context<'_>) -> Poll<Self::Output> {
        let mut w = self.w.lock();
        let id = self.id;
        match w.hss[id].state {
            AsyncState::Pending => {
                w.hss[id].waker = Some(cx.waker().clone());
                Poll::Pending
            }
            AsyncState::Ok => {
                w.hss[id].state = AsyncState::Taken;
                w.hss[id].observed = true;
                let conn = w.hss[id].conn.expect("conn created at HsOk");
                w.conns[conn].handles_live += 1;
                let step = w.step;
                let now = w.tick();
                w.conns[conn].taken_step = Some(step);
                w.conns[conn].last_activity_ms = now;
                if w.conns[conn].h2 {
                    // the checkout that obtained a shareable connection registers it at once
                    w.reg_events.push((true, conn));
                }
                w.ev(21, id as u64, conn as u64);
                drop(w);
                self.done = true;
                Poll::Ready(Ok(SimConn { w: self.w.clone(), conn }))
            }
            AsyncState::Failed => {
                w.hss[id].observed = true;
                w.ev(22, id as u64, 0);
                drop(w);
                self.done = true;
                Poll::Ready(Err(ConnectionError::Handshake(Box::new(DialError(id)))))
            }
            s => panic!("harness: handshake future polled in state {:?}", s),
        }
    }
}

impl Drop for HsFuture {
    fn drop(&mut self) {
        if !self.done {
            let mut w = self.w.lock();
            let id = self.id;
            if matches!(w.hss[id].state, AsyncState::Pending | AsyncState::Ok) {
                let was_ok = w.hss[id].state == AsyncState::Ok;
                w.hss[id].state = AsyncState::Dropped;
                w.hss[id].observed = true;
                w.ev(23, id as u64, 0);
                if was_ok {
                    // the connection was established but nobody will ever hold it
                    if let Some(c) = w.hss[id].conn {
                        let step = w.step;
                        w.conns[c].destroyed_step = Some(step);
                        w.conns[c].open = false;
                    }
                }
            }
        }
    }
}

impl<B> tower::Service<ProtocolRequest<SimIo, B>> for SimProtocol {
    type Response = SimConn;
    type Error = ConnectionError;
    type Future = HsFuture;

    fn poll_ready(&mut self, _cx: &mut Context<'_>) -> Poll<Result<(), Self::Error>> {
        Poll::Ready(Ok(()))
    }

    fn call(&mut self, req: ProtocolRequest<SimIo, B>) -> Self::Future {
        let mut w = self.w.lock();
        let id = w.hss.len();
        let dial = req.transport.dial;
        let origin = w.dials[dial].origin.clone();
        let h2 = matches!(req.version, HttpProtocol::Http2) || w.alpn_h2_origins.contains(&origin);
        w.hss.push(Hs { id, dial, h2, state: AsyncState::Pending, waker: None, conn: None, observed: false });
        w.dials[dial].hs = Some(id);
        w.ev(20, id as u64, dial as u64);
        HsFuture { w: self.w.clone(), id, done: false, _io: req.transport }
    }
}

// ------------------------------------------------------------------------------------------
// Connection

pub struct SimConn {
    pub w: W,
    pub conn: usize,
}

impl std::fmt::Debug for SimConn {
    fn fmt(&self, f: &mut std::fmt::Formatter<'_>) -> std::fmt::Result {
        write!(f, "SimConn({})", self.conn)
    }
}

impl Drop for SimConn {
    fn drop(&mut self) {
        let mut w = self.w.lock();
        let c = self.conn;
        w.conns[c].handles_live -= 1;
        if w.conns[c].handles_live == 0 {
            let step = w.step;
            w.conns[c].destroyed_step = Some(step);
            w.conns[c].idle_since = None;
            // Order-insensitive: the pool keeps its idle lists in a randomly seeded HashMap, so the
            // order in which connections of *different origins* are dropped when the whole pool is
            // dropped differs between executions. It influences nothing but this log entry.
            w.events += 1;
            w.commutative ^= crate::rng::splitmix64(((step as u64) << 32) ^ c as u64);
            if w.trace {
                eprintln!("ev(commutative) step={} destroyed conn={}", step, c);
            }
        }
    }
}

#[derive(Debug, thiserror::Error)]
#[error("simulated connection error: {0}")]
pub struct SimConnError(pub &'static str);

pub struct ExchFuture {
    w: W,
    id: usize,
    done: bool,
}

fn release_holder(w: &mut World, exch: usize) {
    let conn = w.exchs[exch].conn;
    if let Some(r) = w.exchs[exch].req {
        let step = w.step;
        let c = &mut w.conns[conn];
        if let Some(pos) = c.holders.iter().position(|h| *h == r) {
            c.holders.remove(pos);
            c.release_step = Some(step);
        }
    }
}

impl Future for ExchFuture {
    type Output = Result<http::Response<SimBody>, SimConnError>;
    fn poll(mut self: Pin<&mut Self>, cx: &mut Context<'_>) -> Poll<Self::Output> {
        let mut w = self.w.lock();
        let id = self.id;
        match w.exchs[id].state {
            AsyncState::Pending if w.exchs[id].panic_next => {
                drop(w);
                panic!("{}", crate::simrt::INJECTED_PANIC);
            }
            AsyncState::Pending => {
                w.exchs[id].waker = Some(cx.waker().clone());
                let c = w.exchs[id].conn;
                if w.lazy_send && !w.conns[c].h2 && !w.conns[c].busy {
                    // first poll: "the body is not ready yet" - nothing is on the wire; the future
                    // asks to be polled again and the request goes out at that second poll
                    if !w.exchs[id].polled_once {
                        w.exchs[id].polled_once = true;
                        cx.waker().wake_by_ref();
                    } else {
                        w.conns[c].busy = true;
                    }
                }
                Poll::Pending
            }
            AsyncState::Ok => {
                w.exchs[id].state = AsyncState::Taken;
                release_holder(&mut w, id);
                let up = w.exchs[id].upgrade;
                w.ev(41, id as u64, up as u64);
                drop(w);
                self.done = true;
                let mut resp = http::Response::new(Empty::new());
                if up {
                    *resp.status_mut() = http::StatusCode::SWITCHING_PROTOCOLS;
                }
                Poll::Ready(Ok(resp))
            }
            AsyncState::Failed => {
                w.exchs[id].state = AsyncState::Taken;
                release_holder(&mut w, id);
                w.ev(42, id as u64, 0);
                drop(w);
                self.done = true;
                Poll::Ready(Err(SimConnError("exchange failed")))
            }
            s => panic!("harness: exchange future polled in state {:?}", s),
        }
    }
}

impl Drop for ExchFuture {
    fn drop(&mut self) {
        if !self.done {
            let mut w = self.w.lock();
            let id = self.id;
            if matches!(w.exchs[id].state, AsyncState::Pending | AsyncState::Ok | AsyncState::Failed) {
                w.exchs[id].state = AsyncState::Dropped;
                release_holder(&mut w, id);
                w.ev(43, id as u64, 0);
            }
        }
    }
}

impl<B> Connection<B> for SimConn {
    type ResBody = SimBody;
    type Error = SimConnError;
    type Future = ExchFuture;

    fn send_request(&mut self, request: http::Request<B>) -> Self::Future {
        let mut w = self.w.lock();
        let id = w.exchs.len();
        let c = self.conn;
        let req = request.extensions().get::<ReqId>().map(|r| r.0);
        // a non-multiplexed connection carries one exchange at a time (C02), however it got here
        let other_in_flight = !w.conns[c].h2 && w.exchs.iter().any(|e| e.conn == c && e.state == AsyncState::Pending);
        if !w.conns[c].h2 && w.conns[c].open && !w.conns[c].upgraded && (w.conns[c].busy || other_in_flight) {
            let detail = format!("request {:?} was sent on HTTP/1 connection {} while an earlier exchange on it had not finished", req, c);
            let lazy = w.lazy_send;
            w.flag("C02", "request_sent_on_busy_connection", serde_json::json!({"lazy_send": lazy}), detail);
        }
        let usable = w.conns[c].open && !w.conns[c].upgraded && (w.conns[c].h2 || !(w.conns[c].busy || other_in_flight));
        let state = if usable { AsyncState::Pending } else { AsyncState::Failed };
        if usable && !w.conns[c].h2 && !w.lazy_send {
            w.conns[c].busy = true;
        }
        w.exchs.push(Exch { id, req, conn: c, state, upgrade: false, waker: None, polled_once: false, panic_next: false });
        w.ev(40, id as u64, c as u64);
        ExchFuture { w: self.w.clone(), id, done: false }
    }

    fn poll_ready(&mut self, cx: &mut Context<'_>) -> Poll<Result<(), Self::Error>> {
        let mut w = self.w.lock();
        let c = self.conn;
        let step = w.step;
        let now = w.tick();
        let unheld = w.conns[c].holders.is_empty();
        if !w.conns[c].open || w.conns[c].upgraded {
            if unheld {
                // WhenReady ends here as well; whatever it does next is "the hand-back" of a dead connection
                w.conns[c].awaiting_handback = false;
                w.conns[c].handback_step = Some(step);
            }
            w.ev(31, c as u64, 0);
            return Poll::Ready(Err(SimConnError("closed")));
        }
        if !w.conns[c].h2 && w.conns[c].busy {
            w.conns[c].ready_wakers.push(cx.waker().clone());
            if unheld {
                w.conns[c].awaiting_handback = true;
            }
            return Poll::Pending;
        }
        if unheld && !w.conns[c].h2 {
            // WhenReady finishing: hand-back happens in its Drop right after this poll
            w.conns[c].awaiting_handback = false;
            w.conns[c].handback_step = Some(step);
            w.conns[c].handback_ms = Some(now);
            w.conns[c].idle_since = Some(now);
            w.conns[c].last_activity_ms = now;
            w.conns[c].ever_handed_back = true;
            w.conns[c].last_touch_step = step;
            w.reg_events.push((false, c));
        }
        w.ev(32, c as u64, unheld as u64);
        Poll::Ready(Ok(()))
    }

    fn version(&self) -> http::Version {
        if self.w.lock().conns[self.conn].h2 {
            http::Version::HTTP_2
        } else {
            http::Version::HTTP_11
        }
    }
}

impl<B: Send + 'static> PoolableConnection<B> for SimConn {
    fn is_open(&self) -> bool {
        self.w.lock().conn_is_open(self.conn)
    }

    fn can_share(&self) -> bool {
        self.w.lock().conns[self.conn].h2
    }

    fn reuse(&mut self) -> Option<Self> {
        let mut w = self.w.lock();
        if w.conns[self.conn].h2 {
            w.conns[self.conn].handles_live += 1;
            Some(SimConn { w: self.w.clone(), conn: self.conn })
        } else {
            None
        }
    }
}

// ------------------------------------------------------------------------------------------
// Recording inner service: the hand-off observation point

#[derive(Clone)]
pub struct RecSvc {
    pub w: W,
    pub inner: RequestExecutor<Pooled<SimConn, SimBody>, SimBody>,
}

impl tower::Service<ExecuteRequest<Pooled<SimConn, SimBody>, SimBody>> for RecSvc {
    type Response = http::Response<SimBody>;
    type Error = hyperdriver::client::Error;
    type Future = <RequestExecutor<Pooled<SimConn, SimBody>, SimBody> as tower::Service<
        ExecuteRequest<Pooled<SimConn, SimBody>, SimBody>,
    >>::Future;

    fn poll_ready(&mut self, cx: &mut Context<'_>) -> Poll<Result<(), Self::Error>> {
        {
            let mut w = self.w.lock();
            w.inner_ready_polls += 1;
            if w.inner_gate_closed {
                w.inner_wakers.push(cx.waker().clone());
                return Poll::Pending;
            }
        }
        self.inner.poll_ready(cx)
    }

    fn call(&mut self, req: ExecuteRequest<Pooled<SimConn, SimBody>, SimBody>) -> Self::Future {
        let conn = req.connection().conn;
        let rid = req.request().extensions().get::<ReqId>().map(|r| r.0);
        if let Some(r) = rid {
            on_handoff(&self.w, r, conn);
        }
        if self.w.lock().deref_send {
            let (mut conn, request) = req.into_parts();
            let fut = <SimConn as Connection<SimBody>>::send_request(&mut *conn, request);
            return Box::pin(async move {
                let r = fut.await.map_err(|e| hyperdriver::client::Error::Connection(Box::new(e)));
                // (the handle is released when the response head is there, as RequestExecutor does)
                drop(conn);
                r
            });
        }
        self.inner.call(req)
    }
}

/// In what two origins differ, for the violation signature: scheme, host, port (one of them a
/// default port left implicit: "default_port"), or user information.
fn origin_difference(a: &str, b: &str) -> &'static str {
    let (Ok(ua), Ok(ub)) = (a.parse::<http::Uri>(), b.parse::<http::Uri>()) else { return "unparsable" };
    if ua.scheme_str() != ub.scheme_str() {
        return "scheme";
    }
    if ua.host() != ub.host() {
        return "host";
    }
    if ua.port_u16() != ub.port_u16() {
        let default = match ua.scheme_str() {
            Some("https") | Some("wss") => 443,
            _ => 80,
        };
        return if ua.port_u16().unwrap_or(default) == ub.port_u16().unwrap_or(default) { "default_port" } else { "port" };
    }
    "userinfo"
}

/// Invariants evaluated at every hand-off (C02, C05, C06).
fn on_handoff(w: &W, r: u32, c: usize) {
    let mut w = w.lock();
    let step = w.step;
    let now = w.tick();
    let ri = r as usize;
    let fresh = w.dials[w.conns[c].dial].owner == Some(r) && w.conns[c].handoffs == 0;
    w.ev(50, r as u64, c as u64);
    let conn_origin = w.conns[c].origin.clone();
    let req_origin = w.req_origin.get(ri).cloned().unwrap_or_default();

    // C06: same scheme + authority (ASCII case-insensitive; both sides are lower-cased)
    if conn_origin != req_origin {
        w.flag(
            "C06",
            "cross_origin_handoff",
            serde_json::json!({"kind": "origin_mismatch", "differs": origin_difference(&conn_origin, &req_origin)}),
            format!("request {} for {} was handed connection {} dialed for {}", r, req_origin, c, conn_origin),
        );
    }

    // C02: exclusive use of a non-multiplexed connection
    if !w.conns[c].h2 {
        if !w.conns[c].holders.is_empty() {
            let other = w.conns[c].holders[0];
            w.flag(
                "C02",
                "handoff_while_held",
                serde_json::json!({"kind": "held"}),
                format!("HTTP/1 connection {} handed to request {} while request {} still holds it", c, r, other),
            );
        }
        if w.conns[c].busy {
            w.flag(
                "C02",
                "handoff_while_busy",
                serde_json::json!({"kind": "busy"}),
                format!("HTTP/1 connection {} handed to request {} before it reported ready again after its previous use", c, r),
            );
        }
        if w.conns[c].upgraded {
            w.flag(
                "C02",
                "handoff_after_upgrade",
                serde_json::json!({"kind": "upgraded"}),
                format!("HTTP/1 connection {} was taken over by an upgrade and then handed to request {}", c, r),
            );
        }
        if w.conns[c].handles_live > 1 {
            let live = w.conns[c].handles_live;
            w.flag(
                "C02",
                "duplicate_handle",
                serde_json::json!({"kind": "handles"}),
                format!("{} live handles of HTTP/1 connection {} at hand-off", live, c),
            );
        }
    }

    // C05: closed / expired connections (pooled connections only, i.e. not the request's own fresh dial)
    if !fresh {
        let issue_step = w.req_issue_step.get(ri).copied().unwrap_or(0);
        if !w.conns[c].open {
            if let Some(cs) = w.conns[c].close_step {
                let before_issue = cs < issue_step;
                let before_handback = w.conns[c].handback_step.map(|h| cs <= h).unwrap_or(false);
                if before_issue || before_handback {
                    let hb = w.conns[c].handback_step;
                    // a brand-new shareable connection that was already closed when its dialing
                    // checkout registered it (and thereby shared it with the waiters)
                    let via = if w.conns[c].h2 && w.conns[c].taken_step.map(|t| cs <= t).unwrap_or(false) {
                        "new_connection_registered_closed"
                    } else {
                        "pooled"
                    };
                    w.flag(
                        "C05",
                        "closed_handed_out",
                        serde_json::json!({"before": if before_issue { "issue" } else { "handback" }, "via": via}),
                        format!(
                            "request {} (issued at step {}) was handed connection {} closed at step {} (hand-back step {:?})",
                            r, issue_step, c, cs, hb
                        ),
                    );
                }
            }
        }
        if let Some(t) = w.idle_timeout_ms.filter(|t| *t > 0) {
            let issue_ms = w.req_issue_ms.get(ri).copied().unwrap_or(0);
            let snap = w.req_idle_snapshot.get(ri).cloned().unwrap_or_default();
            // Only the request that popped the entry at its own issue instant is judged: nothing may
            // have happened to the connection between that instant and this hand-off (a hand-off to
            // or hand-back from somebody else means it reached us through a waiter channel later).
            let untouched = w.conns[c].last_touch_step <= issue_step;
            if let Some((_, since)) = snap.iter().find(|(cid, _)| *cid == c).filter(|_| untouched) {
                // the connection was sitting in the pool when the request was issued
                if issue_ms.saturating_sub(*since) > t {
                    let is_h2 = w.conns[c].h2;
                    w.flag(
                        "C05",
                        "expired_handed_out",
                        serde_json::json!({"h2": is_h2}),
                        format!(
                            "request {} issued at {} ms was handed connection {} idle since {} ms; idle_timeout {} ms",
                            r, issue_ms, c, since, t
                        ),
                    );
                }
            }
        }
    }

    let conn = &mut w.conns[c];
    conn.holders.push(r);
    conn.handoffs += 1;
    conn.last_handoff_step = Some(step);
    conn.idle_since = None;
    conn.last_activity_ms = now;
    conn.last_touch_step = step;
    w.handoffs.push(Handoff { step, ms: now, req: r, conn: c, fresh });
}
