//! Seeded PRNG with keyed stream splitting. One integer decides everything.
//!
//! `Rng::keyed(run_seed, "net/conn3/c2s")` derives an independent xoshiro256** stream, so that
//! removing one consumer during minimisation does not shift the choices of the others.

#[derive(Clone, Debug)]
pub struct Rng {
    s: [u64; 4],
}

pub fn splitmix64(x: u64) -> u64 {
    let mut z = x.wrapping_add(0x9E37_79B9_7F4A_7C15);
    z = (z ^ (z >> 30)).wrapping_mul(0xBF58_476D_1CE4_E5B9);
    z = (z ^ (z >> 27)).wrapping_mul(0x94D0_49BB_1331_11EB);
    z ^ (z >> 31)
}

pub fn fnv1a(bytes: &[u8]) -> u64 {
    let mut h: u64 = 0xcbf2_9ce4_8422_2325;
    for b in bytes {
        h ^= *b as u64;
        h = h.wrapping_mul(0x0000_0100_0000_01B3);
    }
    h
}

impl Rng {
    pub fn new(seed: u64) -> Self {
        let mut x = seed;
        let mut s = [0u64; 4];
        for slot in s.iter_mut() {
            x = splitmix64(x);
            *slot = x;
        }
        if s == [0, 0, 0, 0] {
            s[0] = 1;
        }
        Rng { s }
    }

    pub fn keyed(seed: u64, key: &str) -> Self {
        Rng::new(splitmix64(seed ^ fnv1a(key.as_bytes())))
    }

    pub fn next_u64(&mut self) -> u64 {
        let result = self.s[1].wrapping_mul(5).rotate_left(7).wrapping_mul(9);
        let t = self.s[1] << 17;
        self.s[2] ^= self.s[0];
        self.s[3] ^= self.s[1];
        self.s[1] ^= self.s[2];
        self.s[0] ^= self.s[3];
        self.s[2] ^= t;
        self.s[3] = self.s[3].rotate_left(45);
        result
    }

    /// Uniform in 0..n (n > 0).
    pub fn below(&mut self, n: u64) -> u64 {
        debug_assert!(n > 0);
        // multiply-shift; bias is irrelevant for our purposes
        ((self.next_u64() as u128 * n as u128) >> 64) as u64
    }

    pub fn usize_below(&mut self, n: usize) -> usize {
        self.below(n as u64) as usize
    }

    /// Uniform in lo..=hi
    pub fn range(&mut self, lo: u64, hi: u64) -> u64 {
        lo + self.below(hi - lo + 1)
    }

    pub fn chance(&mut self, num: u64, den: u64) -> bool {
        self.below(den) < num
    }

    pub fn bool(&mut self) -> bool {
        self.next_u64() & 1 == 1
    }

    pub fn pick<'a, T>(&mut self, xs: &'a [T]) -> &'a T {
        &xs[self.usize_below(xs.len())]
    }

    pub fn weighted<'a, T>(&mut self, xs: &'a [(u32, T)]) -> &'a T {
        let total: u64 = xs.iter().map(|(w, _)| *w as u64).sum();
        let mut r = self.below(total.max(1));
        for (w, x) in xs {
            if r < *w as u64 {
                return x;
            }
            r -= *w as u64;
        }
        &xs[xs.len() - 1].1
    }

    pub fn fill(&mut self, buf: &mut [u8]) {
        for chunk in buf.chunks_mut(8) {
            let v = self.next_u64().to_le_bytes();
            chunk.copy_from_slice(&v[..chunk.len()]);
        }
    }
}

/// Order-sensitive digest used for event logs and abstract signatures.
#[derive(Clone, Copy, Debug)]
pub struct Digest(pub u64);

impl Default for Digest {
    fn default() -> Self {
        Digest(0xcbf2_9ce4_8422_2325)
    }
}

impl Digest {
    pub fn push(&mut self, v: u64) {
        self.0 = splitmix64(self.0 ^ v).wrapping_mul(0x0000_0100_0000_01B3);
    }
    pub fn push_str(&mut self, s: &str) {
        self.push(fnv1a(s.as_bytes()));
    }
}
