//! Engine D `iosim`: every byte-stream adapter hyperdriver puts between application and socket,
//! driven by a writer script and a reader script over SimNet and compared with a reference FIFO.
//! Decides C18.

use std::future::poll_fn;
use std::io;
use std::pin::Pin;
use std::sync::Arc;
use std::task::Poll;

use hyperdriver::bridge::io::TokioIo;
use hyperdriver::verif_hooks::Rewind;
use serde::{Deserialize, Serialize};
use serde_json::json;
use tokio::io::{AsyncRead, AsyncWrite};

use crate::framework::{Outcome, Scenario, ScenarioInfo, Tier, Violation};
use crate::net::{self, FaultKind, IoMode, PipeFault};
use crate::rng::{Digest, Rng};
use crate::{simrt, tlsfix};

#[derive(Clone, Copy, Debug, Serialize, Deserialize, PartialEq, Eq)]
pub enum Stack {
    /// TokioIo<SimStream> used through hyper::rt::{Read, Write}
    HyperOverTokio,
    /// TokioIo<TokioIo<SimStream>> used through tokio::io::{AsyncRead, AsyncWrite}
    ThereAndBack,
    /// Rewind<TokioIo<SimStream>> with a prefix, through hyper::rt
    Rewind,
    /// client::conn::Stream<SimStream> <-> server::conn::Stream<SimStream>, no TLS
    BraidPlain,
    /// the same with TLS on both sides (TlsBraid::Tls arms, tokio-rustls underneath)
    BraidTls,
    /// stream::duplex pair -> DuplexStream -> Braid -> client/server Stream
    Duplex,
    /// the server's protocol detection (ReadVersion, through the verif hook) fills the rewind
    /// buffer from a stream that starts with `prefix_len` bytes of the HTTP/2 preface; the reader
    /// then reads through the Rewind it returns
    Sniffed,
}

const H2_PREFACE: &[u8] = b"PRI * HTTP/2.0\r\n\r\nSM\r\n\r\n";

type SniffFut = Pin<Box<dyn std::future::Future<Output = io::Result<(bool, Rewind<TokioIo<net::SimStream>>)>>>>;

/// Reader endpoint of the `Sniffed` stack: detection runs first (lazily, driven by the first
/// read), everything after that goes through the rewound stream.
struct SniffEnd {
    pending: Option<SniffFut>,
    inner: Option<HyperEnd<Rewind<TokioIo<net::SimStream>>>>,
}

impl SniffEnd {
    async fn ready(&mut self) -> io::Result<&mut HyperEnd<Rewind<TokioIo<net::SimStream>>>> {
        if self.inner.is_none() {
            let fut = self.pending.as_mut().expect("detection future");
            let (_h2, rewind) = poll_fn(|cx| fut.as_mut().poll(cx)).await?;
            self.pending = None;
            self.inner = Some(HyperEnd(rewind));
        }
        Ok(self.inner.as_mut().unwrap())
    }
}

impl Endpoint for SniffEnd {
    fn read<'a>(&'a mut self, cap: usize, prefill: usize) -> Pin<Box<dyn std::future::Future<Output = io::Result<Vec<u8>>> + 'a>> {
        Box::pin(async move { self.ready().await?.read(cap, prefill).await })
    }
    fn write<'a>(&'a mut self, data: &'a [u8]) -> Pin<Box<dyn std::future::Future<Output = io::Result<usize>> + 'a>> {
        Box::pin(async move { self.ready().await?.write(data).await })
    }
    fn write_vectored<'a>(&'a mut self, parts: &'a [&'a [u8]]) -> Pin<Box<dyn std::future::Future<Output = io::Result<usize>> + 'a>> {
        Box::pin(async move { self.ready().await?.write_vectored(parts).await })
    }
    fn flush<'a>(&'a mut self) -> Pin<Box<dyn std::future::Future<Output = io::Result<()>> + 'a>> {
        Box::pin(async move { self.ready().await?.flush().await })
    }
    fn shutdown<'a>(&'a mut self) -> Pin<Box<dyn std::future::Future<Output = io::Result<()>> + 'a>> {
        Box::pin(async move { self.ready().await?.shutdown().await })
    }
}

#[derive(Clone, Debug, Serialize, Deserialize)]
pub enum WOp {
    Write(usize),
    WriteVectored(Vec<usize>),
    Flush,
}

#[derive(Clone, Debug, Serialize, Deserialize)]
pub struct IoCase {
    pub stack: Stack,
    pub seed: u64,
    pub mode_fwd: IoMode,
    pub mode_back: IoMode,
    pub writes: Vec<WOp>,
    pub shutdown: bool,
    /// capacities of successive read buffers (cycled); 0 is legal
    pub read_caps: Vec<usize>,
    /// bytes already filled in the caller's read buffer before each read (hyper ReadBuf / tokio ReadBuf)
    pub prefill: usize,
    pub prefix_len: usize,
    pub fault: Option<PipeFault>,
    pub duplex_buf: usize,
    /// also send this many bytes in the opposite direction concurrently
    pub reverse_bytes: usize,
    /// braid stacks: the server-side stream is the writer of the forward direction
    #[serde(default)]
    pub server_writes: bool,
    /// the injected fault sits on the pipe from b to a instead of the one from a to b (with the
    /// TLS braid and the server writing, that is the pipe the *client* reads the data from)
    #[serde(default)]
    pub fault_back: bool,
}

fn pattern(i: u64, salt: u64) -> u8 {
    (crate::rng::splitmix64(i ^ salt.wrapping_mul(0x9E37)) & 0xff) as u8
}

/// Uniform async endpoint over both trait families.
trait Endpoint {
    fn read<'a>(&'a mut self, cap: usize, prefill: usize) -> Pin<Box<dyn std::future::Future<Output = io::Result<Vec<u8>>> + 'a>>;
    fn write<'a>(&'a mut self, data: &'a [u8]) -> Pin<Box<dyn std::future::Future<Output = io::Result<usize>> + 'a>>;
    fn write_vectored<'a>(&'a mut self, parts: &'a [&'a [u8]]) -> Pin<Box<dyn std::future::Future<Output = io::Result<usize>> + 'a>>;
    fn flush<'a>(&'a mut self) -> Pin<Box<dyn std::future::Future<Output = io::Result<()>> + 'a>>;
    fn shutdown<'a>(&'a mut self) -> Pin<Box<dyn std::future::Future<Output = io::Result<()>> + 'a>>;
}

struct TokioEnd<T>(T);

impl<T: AsyncRead + AsyncWrite + Unpin> Endpoint for TokioEnd<T> {
    fn read<'a>(&'a mut self, cap: usize, prefill: usize) -> Pin<Box<dyn std::future::Future<Output = io::Result<Vec<u8>>> + 'a>> {
        Box::pin(async move {
            let mut storage = vec![0xAAu8; prefill + cap];
            let mut rb = tokio::io::ReadBuf::new(&mut storage);
            rb.set_filled(prefill);
            poll_fn(|cx| Pin::new(&mut self.0).poll_read(cx, &mut rb)).await?;
            let filled = rb.filled();
            if filled.len() < prefill || filled.len() > prefill + cap {
                return Err(io::Error::new(io::ErrorKind::Other, format!("ORACLE: filled {} outside [{}, {}]", filled.len(), prefill, prefill + cap)));
            }
            if filled[..prefill].iter().any(|b| *b != 0xAA) {
                return Err(io::Error::new(io::ErrorKind::Other, "ORACLE: pre-filled bytes of the read buffer were overwritten"));
            }
            Ok(filled[prefill..].to_vec())
        })
    }
    fn write<'a>(&'a mut self, data: &'a [u8]) -> Pin<Box<dyn std::future::Future<Output = io::Result<usize>> + 'a>> {
        Box::pin(poll_fn(move |cx| Pin::new(&mut self.0).poll_write(cx, data)))
    }
    fn write_vectored<'a>(&'a mut self, parts: &'a [&'a [u8]]) -> Pin<Box<dyn std::future::Future<Output = io::Result<usize>> + 'a>> {
        Box::pin(async move {
            let slices: Vec<io::IoSlice<'_>> = parts.iter().map(|p| io::IoSlice::new(p)).collect();
            poll_fn(|cx| Pin::new(&mut self.0).poll_write_vectored(cx, &slices)).await
        })
    }
    fn flush<'a>(&'a mut self) -> Pin<Box<dyn std::future::Future<Output = io::Result<()>> + 'a>> {
        Box::pin(poll_fn(move |cx| Pin::new(&mut self.0).poll_flush(cx)))
    }
    fn shutdown<'a>(&'a mut self) -> Pin<Box<dyn std::future::Future<Output = io::Result<()>> + 'a>> {
        Box::pin(poll_fn(move |cx| Pin::new(&mut self.0).poll_shutdown(cx)))
    }
}

struct HyperEnd<T>(T);

impl<T: hyper::rt::Read + hyper::rt::Write + Unpin> Endpoint for HyperEnd<T> {
    fn read<'a>(&'a mut self, cap: usize, prefill: usize) -> Pin<Box<dyn std::future::Future<Output = io::Result<Vec<u8>>> + 'a>> {
        Box::pin(async move {
            let mut storage = vec![0xAAu8; prefill + cap];
            let mut rb = hyper::rt::ReadBuf::new(&mut storage);
            // mark the first `prefill` bytes as already filled
            #[allow(unsafe_code)]
            unsafe {
                rb.unfilled().advance(prefill);
            }
            poll_fn(|cx| Pin::new(&mut self.0).poll_read(cx, rb.unfilled())).await?;
            let filled = rb.filled();
            if filled.len() < prefill || filled.len() > prefill + cap {
                return Err(io::Error::new(io::ErrorKind::Other, format!("ORACLE: filled {} outside [{}, {}]", filled.len(), prefill, prefill + cap)));
            }
            if filled[..prefill].iter().any(|b| *b != 0xAA) {
                return Err(io::Error::new(io::ErrorKind::Other, "ORACLE: pre-filled bytes of the read buffer were overwritten"));
            }
            Ok(filled[prefill..].to_vec())
        })
    }
    fn write<'a>(&'a mut self, data: &'a [u8]) -> Pin<Box<dyn std::future::Future<Output = io::Result<usize>> + 'a>> {
        Box::pin(poll_fn(move |cx| Pin::new(&mut self.0).poll_write(cx, data)))
    }
    fn write_vectored<'a>(&'a mut self, parts: &'a [&'a [u8]]) -> Pin<Box<dyn std::future::Future<Output = io::Result<usize>> + 'a>> {
        Box::pin(async move {
            let slices: Vec<io::IoSlice<'_>> = parts.iter().map(|p| io::IoSlice::new(p)).collect();
            poll_fn(|cx| Pin::new(&mut self.0).poll_write_vectored(cx, &slices)).await
        })
    }
    fn flush<'a>(&'a mut self) -> Pin<Box<dyn std::future::Future<Output = io::Result<()>> + 'a>> {
        Box::pin(poll_fn(move |cx| Pin::new(&mut self.0).poll_flush(cx)))
    }
    fn shutdown<'a>(&'a mut self) -> Pin<Box<dyn std::future::Future<Output = io::Result<()>> + 'a>> {
        Box::pin(poll_fn(move |cx| Pin::new(&mut self.0).poll_shutdown(cx)))
    }
}

#[derive(Default, Debug)]
struct Side {
    sent: Vec<u8>,
    received: Vec<u8>,
    write_err: Option<String>,
    read_err: Option<String>,
    eof_seen: u32,
    shutdown_done: bool,
    oracle_err: Option<String>,
    over_report: Option<String>,
    reads: u64,
    /// highest stream position ever offered to a write call (accepted or not)
    offered: usize,
    /// the writer's final flush() returned Ok: everything accepted before must reach the peer
    flushed_at_end: bool,
    /// the reading side never started to read: its own (reverse) write failed first, and an
    /// endpoint is not used again after it returned an error. A writer that then waits for ever
    /// on a full pipe is waiting for a peer that is alive and simply not reading.
    never_read: bool,
}

async fn run_writer(ep: &mut dyn Endpoint, ops: &[WOp], shutdown: bool, salt: u64, side: &std::cell::RefCell<Side>) {
    let mut counter = 0u64;
    let gen = |counter: u64, n: usize| -> Vec<u8> { (0..n as u64).map(|i| pattern(counter + i, salt)).collect() };
    for op in ops {
        match op {
            WOp::Write(n) => {
                let data = gen(counter, *n);
                side.borrow_mut().offered = counter as usize + data.len();
                let mut off = 0;
                // a zero-length write is issued once
                loop {
                    match ep.write(&data[off..]).await {
                        Ok(k) => {
                            if k > data.len() - off {
                                side.borrow_mut().over_report = Some(format!("write of {} bytes reported {}", data.len() - off, k));
                                return;
                            }
                            side.borrow_mut().sent.extend_from_slice(&data[off..off + k]);
                            counter += k as u64;
                            off += k;
                            if off >= data.len() {
                                break;
                            }
                            if k == 0 {
                                side.borrow_mut().write_err = Some("write returned 0 for a non-empty buffer".into());
                                return;
                            }
                        }
                        Err(e) => {
                            side.borrow_mut().write_err = Some(e.kind().to_string());
                            return;
                        }
                    }
                }
            }
            WOp::WriteVectored(lens) => {
                let total: usize = lens.iter().sum();
                let data = gen(counter, total);
                side.borrow_mut().offered = counter as usize + total;
                let mut off = 0usize;
                while off < total || (total == 0 && off == 0) {
                    // rebuild the slice list from the current offset, keeping the part boundaries
                    let mut parts: Vec<&[u8]> = vec![];
                    let mut pos = 0usize;
                    for l in lens {
                        let (s, e) = (pos, pos + l);
                        if e > off {
                            parts.push(&data[s.max(off)..e]);
                        }
                        pos = e;
                    }
                    match ep.write_vectored(&parts).await {
                        Ok(k) => {
                            if k > total - off {
                                side.borrow_mut().over_report = Some(format!("vectored write of {} bytes reported {}", total - off, k));
                                return;
                            }
                            side.borrow_mut().sent.extend_from_slice(&data[off..off + k]);
                            counter += k as u64;
                            off += k;
                            if total == 0 {
                                break;
                            }
                            if k == 0 {
                                side.borrow_mut().write_err = Some("vectored write returned 0".into());
                                return;
                            }
                        }
                        Err(e) => {
                            side.borrow_mut().write_err = Some(e.kind().to_string());
                            return;
                        }
                    }
                }
            }
            WOp::Flush => {
                if let Err(e) = ep.flush().await {
                    side.borrow_mut().write_err = Some(e.kind().to_string());
                    return;
                }
            }
        }
    }
    if let Err(e) = ep.flush().await {
        side.borrow_mut().write_err = Some(e.kind().to_string());
        return;
    }
    side.borrow_mut().flushed_at_end = true;
    if shutdown {
        match ep.shutdown().await {
            Ok(()) => side.borrow_mut().shutdown_done = true,
            Err(e) => side.borrow_mut().write_err = Some(e.kind().to_string()),
        }
    }
}

/// `limit`: more than was ever going to be written - a reader that gets this far is being fed invented bytes; stop (the oracle reports it).
async fn run_reader(ep: &mut dyn Endpoint, caps: &[usize], prefill: usize, side: &std::cell::RefCell<Side>, idle: Option<std::time::Duration>, limit: usize) {
    let mut i = 0usize;
    let mut zero_streak = 0;
    loop {
        let mut cap = if caps.is_empty() { 64 } else { caps[i % caps.len()] };
        if cap == 0 && zero_streak >= 2 {
            // never spin on zero-capacity reads (a shrunk case may contain nothing else)
            cap = 3;
            zero_streak = 0;
        }
        i += 1;
        side.borrow_mut().reads += 1;
        let res = match idle {
            Some(d) => loop {
                // "nothing arrives" is judged on the pipes, not on what the adapter delivers: a TLS
                // record trickling in byte by byte produces no plaintext for a long time
                let before = crate::net::moved();
                match tokio::time::timeout(d, ep.read(cap, prefill)).await {
                    Ok(r) => break r,
                    Err(_) if crate::net::moved() == before => return, // quiet for `d` and no EOF is expected
                    Err(_) => continue,
                }
            },
            None => ep.read(cap, prefill).await,
        };
        match res {
            Ok(v) => {
                if v.len() > cap {
                    side.borrow_mut().over_report = Some(format!("read into {} bytes delivered {}", cap, v.len()));
                    return;
                }
                if v.is_empty() && cap > 0 {
                    let mut s = side.borrow_mut();
                    s.eof_seen += 1;
                    if s.eof_seen >= 2 {
                        return;
                    }
                    continue;
                }
                if cap == 0 {
                    zero_streak += 1;
                    continue;
                }
                let mut s = side.borrow_mut();
                if s.eof_seen > 0 {
                    s.oracle_err = Some("data delivered after end-of-stream".into());
                    return;
                }
                s.received.extend_from_slice(&v);
                if s.received.len() > limit {
                    return;
                }
            }
            Err(e) => {
                let msg = e.to_string();
                let mut s = side.borrow_mut();
                if msg.starts_with("ORACLE:") {
                    s.oracle_err = Some(msg);
                } else {
                    s.read_err = Some(e.kind().to_string());
                }
                return;
            }
        }
    }
}

pub struct IoSim;

fn draw_case(r: &mut Rng, seed: u64) -> IoCase {
    let stack = *r.weighted(&[
        (4, Stack::HyperOverTokio),
        (3, Stack::ThereAndBack),
        (4, Stack::Rewind),
        (3, Stack::BraidPlain),
        (2, Stack::BraidTls),
        (3, Stack::Duplex),
        (3, Stack::Sniffed),
    ]);
    let n_ops = r.range(0, 8) as usize;
    let mut writes = vec![];
    for _ in 0..n_ops {
        let size = |r: &mut Rng| -> usize { *r.weighted(&[(2, 0usize), (3, 1), (4, 7), (4, 100), (2, 4096), (1, 20000)]) };
        writes.push(match r.below(10) {
            0..=5 => WOp::Write(size(r)),
            6..=8 => {
                let k = r.range(1, 4) as usize;
                WOp::WriteVectored((0..k).map(|_| size(r)).collect())
            }
            _ => WOp::Flush,
        });
    }
    let n_caps = r.range(1, 4) as usize;
    let read_caps = (0..n_caps)
        .map(|_| *r.weighted(&[(1, 0usize), (3, 1), (3, 5), (3, 64), (2, 1024), (1, 70000)]))
        .collect::<Vec<_>>();
    let read_caps = if read_caps.iter().all(|c| *c == 0) { vec![0, 3] } else { read_caps };
    let faulty = r.chance(1, 4);
    let total: usize = writes
        .iter()
        .map(|w| match w {
            WOp::Write(n) => *n,
            WOp::WriteVectored(v) => v.iter().sum(),
            WOp::Flush => 0,
        })
        .sum();
    let fault = if faulty && stack != Stack::Duplex {
        Some(PipeFault {
            kind: *r.pick(&[FaultKind::Eof, FaultKind::Reset, FaultKind::Reset]),
            at: r.range(0, total as u64 + 8),
        })
    } else {
        None
    };
    IoCase {
        stack,
        seed,
        mode_fwd: {
            let mut m = if r.chance(1, 5) { IoMode::plain() } else { IoMode::draw(r) };
            // a buffered transport under the writer: what is written leaves on flush
            m.lazy_flush = stack != Stack::Duplex && r.chance(1, 4);
            m
        },
        mode_back: if r.chance(1, 2) { IoMode::plain() } else { IoMode::draw(r) },
        writes,
        shutdown: r.chance(4, 5),
        read_caps,
        prefill: *r.weighted(&[(4, 0usize), (2, 1), (2, 13)]),
        prefix_len: *r.pick(&[0usize, 1, 3, 5, 14, 23, 24, 24]),
        fault,
        duplex_buf: *r.pick(&[1usize, 2, 64, 1024, 65536]),
        reverse_bytes: *r.weighted(&[(3, 0usize), (1, 1), (1, 300), (1, 5000)]),
        server_writes: r.bool(),
        fault_back: faulty && stack == Stack::BraidTls && r.bool(),
    }
}

impl IoSim {
    fn viol(out: &mut Outcome, rule: &str, stack: Stack, detail: String) {
        out.violations.push(Violation::new("C18", rule, json!({"stack": format!("{:?}", stack)}), detail));
    }
}

impl Scenario for IoSim {
    type Case = IoCase;

    fn engine(&self) -> &'static str {
        "iosim"
    }

    fn info(&self) -> ScenarioInfo {
        ScenarioInfo {
            rule: "writer script (write / write_vectored / flush / shutdown, sizes 0..20000) and reader script (buffer capacities 0..70000, pre-filled buffers) run concurrently over one adapter stack per case (TokioIo hyper-side, TokioIo there-and-back, Rewind with prefix 0..24, protocol detection + Rewind over a stream that starts with 0..24 bytes of the HTTP/2 preface, client/server braid Stream plain and TLS, duplex transport), SimNet draws chunking / Pending / virtual delays / pipe capacity and optional EOF/reset at a byte offset; bytes compared with a reference FIFO. Non-trivial: >=2 write ops or a fault; distinct = hash of (stack, io-mode class, op kinds and size classes, read-cap classes, fault kind).".into(),
            real: vec![
                "bridge::io::TokioIo (both directions)",
                "rewind::Rewind", "server::conn::auto ReadVersion (protocol detection filling the rewind buffer, through the verif hook)",
                "client::conn::Stream, server::conn::Stream, stream::tls::TlsBraid (both arms), client/server TlsStream",
                "stream::duplex (pair, DuplexClient::connect, DuplexIncoming accept, DuplexStream), stream::core::Braid (duplex arm)",
                "tokio-rustls / rustls (TLS arms)",
            ],
            stub: vec!["the socket (SimNet pipes)", "Braid TCP and Unix arms (kernel sockets: not run)"],
            assumptions: vec!["an injected reset may lose bytes that were accepted but not yet delivered; it must surface as an error, never as a clean EOF"],
        }
    }

    fn num_cases(&self, tier: Tier) -> (u64, u64) {
        match tier {
            Tier::Quick => (0, 30_000),
            Tier::Thorough => (0, 2_000_000),
        }
    }

    fn case(&self, _index: u64, seed: u64, _tier: Tier) -> IoCase {
        let mut r = Rng::keyed(seed, "io/case");
        draw_case(&mut r, seed)
    }

    fn execute(&self, case: &IoCase) -> Outcome {
        simrt::install_panic_hook();
        let _ = simrt::take_panics();
        let mut out = Outcome::default();
        let rt = simrt::runtime();
        let fwd = std::cell::RefCell::new(Side::default());
        let back = std::cell::RefCell::new(Side::default());
        let prefix: Vec<u8> = if case.stack == Stack::Sniffed {
            H2_PREFACE[..case.prefix_len.min(H2_PREFACE.len())].to_vec()
        } else {
            (0..case.prefix_len as u64).map(|i| pattern(i, 77)).collect()
        };
        let mut pipes: Vec<net::PipeRef> = vec![];
        let stall = std::panic::catch_unwind(std::panic::AssertUnwindSafe(|| rt.block_on(async {
            let (mut mode_fwd, mut mode_back) = (case.mode_fwd.clone(), case.mode_back.clone());
            if case.stack == Stack::BraidTls {
                // TLS needs room in both directions at once (handshake flights, session tickets):
                // a socket buffer smaller than a flight deadlocks any TLS implementation.
                mode_fwd.cap = mode_fwd.cap.max(32 * 1024);
                mode_back.cap = mode_back.cap.max(32 * 1024);
            }
            let (f_ab, f_ba) = if case.fault_back { (None, case.fault.clone()) } else { (case.fault.clone(), None) };
            let (a, b) = net::pair(case.seed, 1, mode_fwd, mode_back, f_ab, f_ba);
            pipes.push(a.tx.clone());
            pipes.push(a.rx.clone());
            let mut tls_handshake_failed = false;
            // build the two endpoints
            let (mut wa, mut rb): (Box<dyn Endpoint>, Box<dyn Endpoint>) = match case.stack {
                Stack::HyperOverTokio => (Box::new(HyperEnd(TokioIo::new(a))), Box::new(HyperEnd(TokioIo::new(b)))),
                Stack::ThereAndBack => (
                    Box::new(TokioEnd(TokioIo::new(TokioIo::new(a)))),
                    Box::new(TokioEnd(TokioIo::new(TokioIo::new(b)))),
                ),
                Stack::Rewind => (
                    Box::new(HyperEnd(TokioIo::new(a))),
                    Box::new(HyperEnd(Rewind::new(TokioIo::new(b), prefix.clone()))),
                ),
                Stack::Sniffed => (
                    Box::new(HyperEnd(TokioIo::new(a))),
                    Box::new(SniffEnd { pending: Some(Box::pin(hyperdriver::verif_hooks::verif_read_version(TokioIo::new(b)))), inner: None }),
                ),
                Stack::BraidPlain if case.server_writes => (
                    Box::new(TokioEnd(hyperdriver::server::conn::Stream::new(a))),
                    Box::new(TokioEnd(hyperdriver::client::conn::Stream::new(b))),
                ),
                Stack::BraidPlain => (
                    Box::new(TokioEnd(hyperdriver::client::conn::Stream::new(a))),
                    Box::new(TokioEnd(hyperdriver::server::conn::Stream::new(b))),
                ),
                Stack::BraidTls => {
                    let client = hyperdriver::client::conn::Stream::new(a).tls("sim.test", tlsfix::client_config(&[]));
                    let acceptor = tokio_rustls::TlsAcceptor::from(tlsfix::server_config(tlsfix::CertKind::Good, &[]));
                    let server: hyperdriver::server::conn::Stream<net::SimStream> =
                        hyperdriver::server::conn::tls::TlsStream::new(acceptor.accept(b)).into();
                    let (mut client, mut server) = (client, server);
                    {
                        use hyperdriver::stream::tls::TlsHandshakeStream;
                        let hs = async { tokio::join!(client.finish_handshake(), server.finish_handshake()) };
                        match tokio::time::timeout(std::time::Duration::from_secs(600), hs).await {
                            Ok((Ok(()), Ok(()))) => {}
                            _ => tls_handshake_failed = true,
                        }
                    }
                    if case.server_writes {
                        (Box::new(TokioEnd(server)), Box::new(TokioEnd(client)))
                    } else {
                        (Box::new(TokioEnd(client)), Box::new(TokioEnd(server)))
                    }
                }
                Stack::Duplex => {
                    drop((a, b));
                    use hyperdriver::server::conn::AcceptExt;
                    let (client, incoming) = hyperdriver::stream::duplex::pair();
                    let (c, s) = tokio::join!(client.connect(case.duplex_buf), incoming.accept());
                    let c = c.expect("duplex connect");
                    let s = s.expect("duplex accept");
                    let cs: hyperdriver::client::conn::Stream = c.into();
                    let ss: hyperdriver::server::conn::Stream = s.into();
                    if case.server_writes {
                        (Box::new(TokioEnd(ss)), Box::new(TokioEnd(cs)))
                    } else {
                        (Box::new(TokioEnd(cs)), Box::new(TokioEnd(ss)))
                    }
                }
            };
            // the reverse transfer must never block on pipe space (both sides write before they read)
            let back_room = match case.stack {
                Stack::Duplex => case.duplex_buf / 2,
                Stack::BraidTls => (case.mode_back.cap / 2).saturating_sub(64),
                _ => case.mode_back.cap / 2,
            };
            let reverse_bytes = if case.stack == Stack::Sniffed { 0 } else { case.reverse_bytes.min(back_room) };
            let fwd_limit: usize = case
                .writes
                .iter()
                .map(|w| match w {
                    WOp::Write(n) => *n,
                    WOp::WriteVectored(v) => v.iter().sum(),
                    _ => 0,
                })
                .sum::<usize>()
                + case.prefix_len
                + 65536;
            let reverse: Vec<WOp> = if reverse_bytes > 0 { vec![WOp::Write(reverse_bytes)] } else { vec![] };
            // forward: a writes, b reads. backward: b writes, a reads. Each endpoint is used by two
            // logical actors, so run "write then read" on each side concurrently with the other side.
            // An endpoint that returned an error is not used again (what hyper does as well).
            let side_a = async {
                if case.stack == Stack::Sniffed {
                    // the stream starts with (part of) the HTTP/2 preface, written like any other bytes
                    let mut off = 0;
                    while off < prefix.len() {
                        match wa.write(&prefix[off..]).await {
                            Ok(0) => break,
                            Ok(k) => off += k,
                            Err(e) => {
                                fwd.borrow_mut().write_err = Some(e.kind().to_string());
                                break;
                            }
                        }
                    }
                }
                if fwd.borrow().write_err.is_none() {
                    run_writer(wa.as_mut(), &case.writes, case.shutdown, 1, &fwd).await;
                }
                if reverse_bytes > 0 && fwd.borrow().write_err.is_none() {
                    run_reader(wa.as_mut(), &case.read_caps, 0, &back, None, reverse_bytes + 65536).await;
                }
            };
            let side_b = async {
                if reverse_bytes > 0 {
                    run_writer(rb.as_mut(), &reverse, true, 2, &back).await;
                }
                if back.borrow().write_err.is_some() {
                    fwd.borrow_mut().never_read = true;
                }
                if back.borrow().write_err.is_none() {
                    if case.shutdown {
                        run_reader(rb.as_mut(), &case.read_caps, case.prefill, &fwd, None, fwd_limit).await;
                    } else {
                        // no end-of-stream will come: read until nothing arrives for a virtual minute
                        run_reader(rb.as_mut(), &case.read_caps, case.prefill, &fwd, Some(std::time::Duration::from_secs(60)), fwd_limit).await;
                    }
                }
            };
            let both = async {
                if !tls_handshake_failed {
                    tokio::join!(side_a, side_b);
                }
            };
            // a transfer hangs when nothing touches any pipe for ten minutes of virtual time while
            // it is unfinished; a slow one (one byte per operation, each delayed) is not a hang
            tokio::pin!(both);
            let mut last = crate::net::moved();
            let mut quiet = 0;
            loop {
                match tokio::time::timeout(std::time::Duration::from_secs(300), &mut both).await {
                    Ok(()) => break false,
                    Err(_) => {
                        let now = crate::net::moved();
                        if now == last {
                            quiet += 1;
                        } else {
                            quiet = 0;
                        }
                        last = now;
                        if quiet >= 2 {
                            break true;
                        }
                    }
                }
            }
        })));
        drop(rt);
        let stall = stall.unwrap_or(false);
        for p in simrt::take_panics() {
            if p.in_harness() {
                out.harness_error = Some(format!("harness panic {} at {}", p.message, p.location()));
            } else {
                Self::viol(&mut out, "panic", case.stack, format!("panic: {} at {}", p.message, p.location()));
            }
        }
        let f = fwd.borrow();
        let bk = back.borrow();
        let faulted = pipes.iter().any(|p| !p.lock().stats.faults_fired.is_empty());
        let reset = pipes.iter().any(|p| p.lock().is_reset());

        // ---- log / signature / counters
        let mut log = Digest::default();
        let mut sig = Digest::default();
        for p in &pipes {
            let p = p.lock();
            log.push(p.log.0);
            log.push(p.written);
            log.push(p.read);
            out.add("fault.short_read", p.stats.short_reads);
            out.add("fault.short_write", p.stats.short_writes);
            out.add("fault.pending_inject", p.stats.pending_injected);
            out.add("fault.delay_inject", p.stats.delays_injected);
            out.add("fault.tiny_buffer_full", p.stats.tiny_buffer_full);
            out.add("probe.vectored_write_reached_socket", p.stats.vectored_writes);
            for k in &p.stats.faults_fired {
                out.count(&format!("fault.peer_{:?}", k).to_lowercase());
            }
        }
        log.push(f.received.len() as u64);
        log.push(f.sent.len() as u64);
        log.push(f.eof_seen as u64);
        log.push(bk.received.len() as u64);
        sig.push(case.stack as u64);
        sig.push(case.mode_fwd.chunk as u64 * 8 + (case.mode_fwd.pending_pct > 0) as u64 * 2 + (case.mode_fwd.delay_pct > 0) as u64);
        sig.push((case.mode_fwd.cap as u64).min(65) );
        let cls = |n: usize| -> u64 {
            match n {
                0 => 0,
                1 => 1,
                2..=63 => 2,
                64..=4095 => 3,
                _ => 4,
            }
        };
        for w in &case.writes {
            match w {
                WOp::Write(n) => sig.push(10 + cls(*n)),
                WOp::WriteVectored(v) => {
                    sig.push(20);
                    for n in v {
                        sig.push(cls(*n));
                    }
                }
                WOp::Flush => sig.push(30),
            }
        }
        for c in &case.read_caps {
            sig.push(40 + cls(*c));
        }
        sig.push(case.prefill as u64);
        sig.push(case.prefix_len as u64);
        sig.push(case.fault.as_ref().map(|f| f.kind as u64 + 1).unwrap_or(0));
        sig.push(case.shutdown as u64);
        out.abstract_sig = sig.0;
        out.log_digest = log.0;
        out.nontrivial = case.writes.len() >= 2 || case.fault.is_some();
        out.faulty = case.fault.is_some() || !case.mode_fwd.is_plain();
        out.count(&format!("probe.stack_{:?}", case.stack).to_lowercase());
        if case.prefill > 0 {
            out.count("probe.prefilled_read_buffer");
        }
        if case.read_caps.contains(&0) {
            out.count("probe.zero_capacity_read");
        }
        if f.eof_seen > 0 {
            out.count("probe.eof_observed");
        }

        // ---- oracle
        if stall && f.never_read {
            out.count("probe.writer_blocked_on_peer_that_never_reads");
        } else if stall {
            // no stall fault exists in this engine, so a run that never finishes lost a wake-up or bytes
            Self::viol(&mut out, "transfer_hangs", case.stack, format!("transfer did not finish: sent {} received {} eof {}", f.sent.len(), f.received.len(), f.eof_seen));
            return out;
        }
        for (name, side, pre) in [("forward", &*f, if matches!(case.stack, Stack::Rewind | Stack::Sniffed) { prefix.clone() } else { vec![] }), ("reverse", &*bk, vec![])] {
            if let Some(e) = &side.oracle_err {
                Self::viol(&mut out, "read_buffer_contract", case.stack, format!("{}: {}", name, e));
            }
            if let Some(e) = &side.over_report {
                Self::viol(&mut out, "over_report", case.stack, format!("{}: {}", name, e));
            }
            // The stream is position-indexed: byte i is always pattern(i). Expected = replayed prefix
            // followed by the pattern; the reader may never see more than was ever offered.
            let salt = if name == "forward" { 1 } else { 2 };
            let n = side.received.len();
            let mut expected = pre.clone();
            expected.extend((0..side.offered as u64).map(|i| pattern(i, salt)));
            if n > expected.len() || side.received[..] != expected[..n] {
                let first_bad = side.received.iter().zip(expected.iter()).position(|(a, b)| a != b).unwrap_or(expected.len().min(n));
                Self::viol(
                    &mut out,
                    "bytes_differ",
                    case.stack,
                    format!("{}: received {} bytes, expected a prefix of the {} offered (+{} replayed) bytes; first difference at offset {}", name, n, side.offered, pre.len(), first_bad),
                );
                continue;
            }
            expected.truncate(pre.len() + side.sent.len());
            let writer_clean = side.write_err.is_none();
            if !faulted {
                if let Some(e) = &side.read_err {
                    Self::viol(&mut out, "spurious_read_error", case.stack, format!("{}: reader got error {} without any injected fault", name, e));
                }
                if let Some(e) = &side.write_err {
                    Self::viol(&mut out, "spurious_write_error", case.stack, format!("{}: writer got error {} without any injected fault", name, e));
                }
                if writer_clean && n != expected.len() && (side.shutdown_done || name == "reverse") {
                    Self::viol(&mut out, "bytes_lost", case.stack, format!("{}: writer finished and shut down after {} bytes (+{} prefix) but reader saw only {} before EOF", name, side.sent.len(), pre.len(), n));
                } else if writer_clean
                    && n != expected.len()
                    && side.flushed_at_end
                    && side.read_err.is_none()
                    // protocol detection holds back a stream that is still a strict prefix of the
                    // HTTP/2 preface until more bytes or end-of-stream arrive: nothing to deliver yet
                    && !(case.stack == Stack::Sniffed && expected.len() < H2_PREFACE.len() && H2_PREFACE.starts_with(&expected))
                {
                    // no shutdown: the reader read until the pipes had been quiet for a virtual minute
                    Self::viol(&mut out, "flushed_bytes_not_delivered", case.stack, format!("{}: writer wrote {} bytes (+{} prefix) and flush() returned Ok, but the reader had received only {} when everything went quiet", name, side.sent.len(), pre.len(), n));
                }
                if side.shutdown_done && side.eof_seen == 0 && side.read_err.is_none() {
                    Self::viol(&mut out, "eof_not_propagated", case.stack, format!("{}: writer shut down but reader never saw end-of-stream", name));
                }
            } else if case.stack == Stack::BraidTls
                && case.fault.as_ref().map(|x| x.kind) == Some(FaultKind::Eof)
                // the pipe that carries this direction's data is the one that was cut
                && ((name == "forward") == (case.server_writes == case.fault_back))
                && side.eof_seen > 0
                && side.read_err.is_none()
                && n < expected.len()
            {
                // under TLS the end of the transport without a close_notify is a truncation, and must
                // reach the reader as an error - never as a clean end-of-stream
                Self::viol(&mut out, "truncation_seen_as_eof", case.stack, format!("{}: the transport under the TLS session ended after {} of {} bytes (no close_notify) and the reader was told end-of-stream, not an error", name, n, expected.len()));
            } else if reset && name == "forward" {
                // an injected reset must surface as an error on the reading side, never as clean EOF
                // (TLS maps a transport error to an error as well)
                if side.eof_seen > 0 && side.read_err.is_none() && n < expected.len() && case.fault.as_ref().map(|x| x.kind) == Some(FaultKind::Reset) {
                    Self::viol(&mut out, "reset_seen_as_eof", case.stack, format!("{}: connection reset after {} of {} bytes was reported to the reader as a clean end-of-stream", name, n, expected.len()));
                }
            }
        }
        out
    }

    fn shrink(&self, case: &IoCase) -> Vec<IoCase> {
        let mut v = vec![];
        for i in 0..case.writes.len() {
            let mut c = case.clone();
            c.writes.remove(i);
            v.push(c);
        }
        if !case.mode_fwd.is_plain() {
            let mut c = case.clone();
            c.mode_fwd = IoMode::plain();
            v.push(c);
        }
        if !case.mode_back.is_plain() {
            let mut c = case.clone();
            c.mode_back = IoMode::plain();
            v.push(c);
        }
        if case.fault.is_some() {
            let mut c = case.clone();
            c.fault = None;
            v.push(c);
        }
        if case.reverse_bytes > 0 {
            let mut c = case.clone();
            c.reverse_bytes = 0;
            v.push(c);
        }
        if case.prefill > 0 {
            let mut c = case.clone();
            c.prefill = 0;
            v.push(c);
        }
        if case.prefix_len > 0 {
            let mut c = case.clone();
            c.prefix_len = 0;
            v.push(c);
            let mut c = case.clone();
            c.prefix_len = case.prefix_len / 2;
            v.push(c);
        }
        if case.read_caps.len() > 1 {
            for i in 0..case.read_caps.len() {
                let mut c = case.clone();
                c.read_caps.remove(i);
                v.push(c);
            }
        }
        for i in 0..case.read_caps.len() {
            if case.read_caps[i] > 8 {
                let mut c = case.clone();
                c.read_caps[i] = 8;
                v.push(c);
            }
        }
        for (i, w) in case.writes.iter().enumerate() {
            match w {
                WOp::Write(n) if *n > 1 => {
                    for m in [1usize, n / 2] {
                        let mut c = case.clone();
                        c.writes[i] = WOp::Write(m);
                        v.push(c);
                    }
                }
                WOp::WriteVectored(parts) => {
                    let mut c = case.clone();
                    c.writes[i] = WOp::Write(parts.iter().sum());
                    v.push(c);
                }
                _ => {}
            }
        }
        if case.mode_fwd.cap != 65536 {
            let mut c = case.clone();
            c.mode_fwd.cap = 65536;
            v.push(c);
        }
        let _ = Arc::new(());
        v
    }
}

// ------------------------------------------------------------------------------------------
// realio: the TCP / Unix stream wrappers and the Braid arms over real kernel sockets
// ------------------------------------------------------------------------------------------

/// C18, second part. `stream::tcp::TcpStream`, `stream::unix::UnixStream` and the TCP / Unix arms
/// of `Braid` wrap kernel sockets, for which there is no seam; the adapters themselves are pure
/// pass-through code, so what is controlled here is everything on the caller's side - the
/// write / vectored-write / flush / shutdown script, the read-buffer capacities and pre-fill -
/// while loopback and Unix-domain sockets carry the bytes (fault-free: no kernel-level fault
/// can be injected). Writer and reader run on one current-thread runtime.
#[derive(Clone, Copy, Debug, Serialize, Deserialize, PartialEq, Eq)]
pub enum RStack {
    /// hyperdriver TcpStream::connect <-> Accept for TcpListener
    Tcp,
    /// hyperdriver UnixStream::connect <-> Accept for UnixListener
    Unix,
    /// UnixStream::pair()
    UnixPair,
    /// client::conn::Stream<Braid(TCP)> <-> server::conn::Stream<Braid(TCP)>
    BraidTcp,
    /// the same over a Unix socket
    BraidUnix,
    /// BraidTcp with TLS on both sides
    BraidTcpTls,
}

#[derive(Clone, Debug, Serialize, Deserialize)]
pub struct RealIoCase {
    pub seed: u64,
    pub stack: RStack,
    pub writes: Vec<WOp>,
    /// end the forward direction with shutdown() (true) or by dropping the endpoint (false; only without reverse traffic)
    pub shutdown: bool,
    pub read_caps: Vec<usize>,
    pub prefill: usize,
    pub reverse_bytes: usize,
}

pub struct RealIoSim;

static RSOCK_SEQ: std::sync::atomic::AtomicU64 = std::sync::atomic::AtomicU64::new(0);

fn rsock_path() -> std::path::PathBuf {
    let base = std::env::var("VERIF_SOCK_DIR").map(std::path::PathBuf::from).unwrap_or_else(|_| std::env::temp_dir());
    let d = base.join(format!("hdsim-io-{}", std::process::id()));
    let _ = std::fs::create_dir_all(&d);
    d.join(format!("s{}", RSOCK_SEQ.fetch_add(1, std::sync::atomic::Ordering::Relaxed)))
}

async fn real_pair(stack: RStack) -> io::Result<(Box<dyn Endpoint>, Box<dyn Endpoint>)> {
    use hyperdriver::server::conn::AcceptExt;
    use hyperdriver::stream::Braid;
    let tcp = || async {
        let l = tokio::net::TcpListener::bind("127.0.0.1:0").await?;
        let addr = l.local_addr()?;
        let (c, s) = tokio::join!(hyperdriver::stream::tcp::TcpStream::connect(addr), l.accept());
        Ok::<_, io::Error>((c?, s?))
    };
    let unix = || async {
        let p = rsock_path();
        let l = tokio::net::UnixListener::bind(&p)?;
        let (c, s) = tokio::join!(hyperdriver::stream::unix::UnixStream::connect(p.clone()), l.accept());
        let _ = std::fs::remove_file(&p);
        Ok::<_, io::Error>((c?, s?))
    };
    Ok(match stack {
        RStack::Tcp => {
            let (c, s) = tcp().await?;
            (Box::new(TokioEnd(c)), Box::new(TokioEnd(s)))
        }
        RStack::Unix => {
            let (c, s) = unix().await?;
            (Box::new(TokioEnd(c)), Box::new(TokioEnd(s)))
        }
        RStack::UnixPair => {
            let (a, b) = hyperdriver::stream::unix::UnixStream::pair()?;
            (Box::new(TokioEnd(a)), Box::new(TokioEnd(b)))
        }
        RStack::BraidTcp => {
            let (c, s) = tcp().await?;
            let cs: hyperdriver::client::conn::Stream = hyperdriver::client::conn::Stream::new(Braid::from(c));
            let ss: hyperdriver::server::conn::Stream = hyperdriver::server::conn::Stream::new(Braid::from(s));
            (Box::new(TokioEnd(cs)), Box::new(TokioEnd(ss)))
        }
        RStack::BraidUnix => {
            let (c, s) = unix().await?;
            let cs: hyperdriver::client::conn::Stream = hyperdriver::client::conn::Stream::new(Braid::from(c));
            let ss: hyperdriver::server::conn::Stream = hyperdriver::server::conn::Stream::new(Braid::from(s));
            (Box::new(TokioEnd(cs)), Box::new(TokioEnd(ss)))
        }
        RStack::BraidTcpTls => {
            let (c, s) = tcp().await?;
            let mut client = hyperdriver::client::conn::Stream::new(Braid::from(c)).tls("sim.test", tlsfix::client_config(&[]));
            let acceptor = tokio_rustls::TlsAcceptor::from(tlsfix::server_config(tlsfix::CertKind::Good, &[]));
            let mut server: hyperdriver::server::conn::Stream<Braid> = hyperdriver::server::conn::tls::TlsStream::new(acceptor.accept(Braid::from(s))).into();
            {
                use hyperdriver::stream::tls::TlsHandshakeStream;
                let (a, b) = tokio::join!(client.finish_handshake(), server.finish_handshake());
                a?;
                b?;
            }
            (Box::new(TokioEnd(client)), Box::new(TokioEnd(server)))
        }
    })
}

impl Scenario for RealIoSim {
    type Case = RealIoCase;

    fn engine(&self) -> &'static str {
        "realio"
    }

    fn info(&self) -> ScenarioInfo {
        ScenarioInfo {
            rule: "writer script (write / write_vectored / flush, sizes 0..20000, ended by shutdown or by dropping the endpoint) and reader script (buffer capacities 0..70000, pre-filled buffers), optionally with concurrent reverse traffic, over hyperdriver's TcpStream and UnixStream (connect / accept / pair) bare, inside Braid inside client/server Stream, and with TLS on top - carried by real loopback and Unix-domain sockets (fault-free; the kernel has no seam). Bytes compared with a reference FIFO; end-of-stream must arrive after the last byte; no spurious errors; read-buffer contract. distinct = (stack, op kinds and size classes, read-cap classes).".into(),
            real: vec![
                "stream::tcp::TcpStream (connect, Accept for TcpListener, AsyncRead/AsyncWrite incl. vectored, shutdown), stream::unix::UnixStream (connect, pair, Accept for UnixListener)",
                "stream::core::Braid (TCP and Unix arms), client::conn::Stream / server::conn::Stream over them, TlsBraid (both arms)",
                "Linux loopback TCP and Unix-domain sockets (real kernel objects), tokio-rustls / rustls",
            ],
            stub: vec!["nothing is stubbed; chunking on the wire is whatever the kernel does (not controlled), the callers' scripts are seeded"],
            assumptions: vec!["no fault is injected in this part (kernel sockets have no seam); time is real and only bounds a hang (10 s)"],
        }
    }

    fn num_cases(&self, tier: Tier) -> (u64, u64) {
        match tier {
            Tier::Quick => (0, 3_000),
            Tier::Thorough => (0, 200_000),
        }
    }

    fn case(&self, _index: u64, seed: u64, _tier: Tier) -> RealIoCase {
        let mut r = Rng::keyed(seed, "realio/case");
        let base = draw_case(&mut r, seed);
        let stack = *r.pick(&[RStack::Tcp, RStack::Unix, RStack::UnixPair, RStack::BraidTcp, RStack::BraidUnix, RStack::BraidTcpTls]);
        let reverse_bytes = if r.chance(1, 3) { *r.pick(&[1usize, 100, 4000]) } else { 0 };
        RealIoCase {
            seed,
            stack,
            writes: base.writes,
            shutdown: reverse_bytes > 0 || r.bool(),
            read_caps: base.read_caps,
            prefill: base.prefill,
            reverse_bytes,
        }
    }

    fn execute(&self, case: &RealIoCase) -> Outcome {
        simrt::install_panic_hook();
        let _ = simrt::take_panics();
        let mut out = Outcome::default();
        let rt = tokio::runtime::Builder::new_current_thread().enable_all().build().expect("runtime");
        let fwd = std::cell::RefCell::new(Side::default());
        let back = std::cell::RefCell::new(Side::default());
        let started = std::time::Instant::now();
        let vstack = match case.stack {
            RStack::Tcp | RStack::Unix | RStack::UnixPair => Stack::BraidPlain,
            _ => Stack::BraidPlain,
        };
        let _ = vstack;
        let viol = |out: &mut Outcome, rule: &str, detail: String| {
            out.violations.push(Violation::new("C18", rule, json!({"stack": format!("{:?}", case.stack)}), detail));
        };
        let res = std::panic::catch_unwind(std::panic::AssertUnwindSafe(|| {
            rt.block_on(async {
                let (mut wa, mut rb) = match real_pair(case.stack).await {
                    Ok(x) => x,
                    Err(e) => return Err(format!("harness: could not set up {:?}: {}", case.stack, e)),
                };
                let fwd_limit: usize = case
                    .writes
                    .iter()
                    .map(|w| match w {
                        WOp::Write(n) => *n,
                        WOp::WriteVectored(v) => v.iter().sum(),
                        _ => 0,
                    })
                    .sum::<usize>()
                    + 65536;
                let reverse: Vec<WOp> = if case.reverse_bytes > 0 { vec![WOp::Write(case.reverse_bytes)] } else { vec![] };
                // A TLS endpoint is always shut down properly: dropping it while the peer's session
                // tickets sit unread in the socket makes the kernel send a reset instead of a FIN,
                // which is TCP's behaviour and not the adapter's.
                let shutdown = case.shutdown || case.stack == RStack::BraidTcpTls;
                let side_a = async {
                    run_writer(wa.as_mut(), &case.writes, shutdown, 1, &fwd).await;
                    if case.reverse_bytes > 0 && fwd.borrow().write_err.is_none() {
                        run_reader(wa.as_mut(), &case.read_caps, 0, &back, None, case.reverse_bytes + 65536).await;
                    }
                    if !shutdown {
                        drop(wa); // closing the socket ends the stream
                    }
                };
                let side_b = async {
                    if case.reverse_bytes > 0 {
                        run_writer(rb.as_mut(), &reverse, true, 2, &back).await;
                    }
                    run_reader(rb.as_mut(), &case.read_caps, case.prefill, &fwd, None, fwd_limit).await;
                };
                let both = async {
                    tokio::join!(side_a, side_b);
                };
                Ok(tokio::time::timeout(std::time::Duration::from_secs(10), both).await.is_err())
            })
        }));
        drop(rt);
        for p in simrt::take_panics() {
            if p.in_harness() {
                out.harness_error = Some(format!("harness panic {} at {}", p.message, p.location()));
            } else {
                viol(&mut out, "panic", format!("panic: {} at {}", p.message, p.location()));
            }
        }
        let hang = match res {
            Ok(Ok(h)) => h,
            Ok(Err(e)) => {
                out.harness_error = Some(e);
                return out;
            }
            Err(_) => return out,
        };
        let f = fwd.borrow();
        let bk = back.borrow();
        let mut log = Digest::default();
        let mut sig = Digest::default();
        log.push(f.sent.len() as u64);
        log.push(f.received.len() as u64);
        log.push(f.eof_seen.min(1) as u64);
        log.push(bk.received.len() as u64);
        log.push(hang as u64);
        sig.push(case.stack as u64);
        let cls = |n: usize| -> u64 {
            match n {
                0 => 0,
                1 => 1,
                2..=63 => 2,
                64..=4095 => 3,
                _ => 4,
            }
        };
        for w in &case.writes {
            match w {
                WOp::Write(n) => sig.push(10 + cls(*n)),
                WOp::WriteVectored(v) => {
                    sig.push(20);
                    for n in v {
                        sig.push(cls(*n));
                    }
                }
                WOp::Flush => sig.push(30),
            }
        }
        for c in &case.read_caps {
            sig.push(40 + cls(*c));
        }
        sig.push(case.prefill as u64);
        sig.push(case.shutdown as u64);
        sig.push(cls(case.reverse_bytes));
        out.abstract_sig = sig.0;
        out.log_digest = log.0;
        out.sim_ms = started.elapsed().as_millis() as u64;
        out.nontrivial = case.writes.len() >= 2;
        out.count(&format!("probe.stack_{:?}", case.stack));
        if hang {
            viol(&mut out, "transfer_hangs", format!("transfer did not finish within 10 s: sent {} received {} eof {}", f.sent.len(), f.received.len(), f.eof_seen));
            return out;
        }
        for (name, side, salt) in [("forward", &*f, 1u64), ("reverse", &*bk, 2u64)] {
            if let Some(e) = &side.oracle_err {
                viol(&mut out, "read_buffer_contract", format!("{}: {}", name, e));
            }
            if let Some(e) = &side.over_report {
                viol(&mut out, "over_report", format!("{}: {}", name, e));
            }
            if let Some(e) = &side.write_err {
                viol(&mut out, "spurious_write_error", format!("{}: writer got error {} on a healthy socket", name, e));
                continue;
            }
            if let Some(e) = &side.read_err {
                viol(&mut out, "spurious_read_error", format!("{}: reader got error {} on a healthy socket", name, e));
                continue;
            }
            let expected: Vec<u8> = (0..side.sent.len() as u64).map(|i| pattern(i, salt)).collect();
            if side.sent != expected {
                out.harness_error = Some("writer bookkeeping inconsistent".into());
            }
            if side.received != expected {
                let first_bad = side.received.iter().zip(expected.iter()).position(|(a, b)| a != b).unwrap_or(expected.len().min(side.received.len()));
                let rule = if side.received.len() < expected.len() && side.received[..] == expected[..side.received.len()] { "bytes_lost" } else { "bytes_differ" };
                viol(&mut out, rule, format!("{}: wrote {} bytes, reader got {}; first difference at offset {}", name, expected.len(), side.received.len(), first_bad));
            } else if (name == "forward" || case.reverse_bytes > 0) && side.eof_seen == 0 {
                viol(&mut out, "eof_not_propagated", format!("{}: all {} bytes arrived but end-of-stream was never reported", name, expected.len()));
            }
        }
        out
    }

    fn shrink(&self, case: &RealIoCase) -> Vec<RealIoCase> {
        let mut v = vec![];
        for i in 0..case.writes.len() {
            let mut c = case.clone();
            c.writes.remove(i);
            v.push(c);
        }
        for i in 0..case.writes.len() {
            if let WOp::Write(n) = case.writes[i] {
                if n > 1 {
                    let mut c = case.clone();
                    c.writes[i] = WOp::Write(n / 2);
                    v.push(c);
                }
            }
        }
        if case.read_caps.len() > 1 {
            for i in 0..case.read_caps.len() {
                let mut c = case.clone();
                c.read_caps.remove(i);
                v.push(c);
            }
        }
        if case.prefill > 0 {
            let mut c = case.clone();
            c.prefill = 0;
            v.push(c);
        }
        if case.reverse_bytes > 0 {
            let mut c = case.clone();
            c.reverse_bytes = 0;
            v.push(c);
        }
        v
    }
}
