//! Batch runner, minimiser, replay files, known findings and evidence writer shared by all engines.

use std::collections::{BTreeMap, HashMap, HashSet};
use std::path::{Path, PathBuf};
use std::sync::atomic::{AtomicU64, Ordering};
use std::sync::Mutex;
use std::time::Instant;

use serde::de::DeserializeOwned;
use serde::{Deserialize, Serialize};
use serde_json::{json, Value};

use crate::rng::splitmix64;

pub const DEFAULT_SEED: u64 = 0x5EED_2026;

#[derive(Clone, Copy, Debug, PartialEq, Eq)]
pub enum Tier {
    Quick,
    Thorough,
}

impl Tier {
    pub fn name(&self) -> &'static str {
        match self {
            Tier::Quick => "quick",
            Tier::Thorough => "thorough",
        }
    }
}

#[derive(Clone, Debug, Serialize, Deserialize, PartialEq)]
pub struct Violation {
    pub property: String,
    pub rule: String,
    /// Small object describing *which* violation this is; matched against known findings.
    pub signature: Value,
    pub detail: String,
}

impl Violation {
    pub fn new(property: &str, rule: &str, signature: Value, detail: String) -> Self {
        Violation {
            property: property.to_string(),
            rule: rule.to_string(),
            signature,
            detail,
        }
    }
    pub fn group_key(&self) -> String {
        format!("{}|{}|{}", self.property, self.rule, self.signature)
    }
}

#[derive(Clone, Debug, Default)]
pub struct Outcome {
    pub violations: Vec<Violation>,
    /// `fault.<kind>` = faults that actually fired, `probe.<name>` = rare conditions hit.
    pub counters: BTreeMap<String, u64>,
    pub nontrivial: bool,
    /// Hash of the abstract state/transition sequence (times and ids removed).
    pub abstract_sig: u64,
    /// Digest of the full event log: two executions are "the same" iff equal.
    pub log_digest: u64,
    pub sim_ms: u64,
    pub faulty: bool,
    pub harness_error: Option<String>,
}

impl Outcome {
    pub fn count(&mut self, key: &str) {
        *self.counters.entry(key.to_string()).or_insert(0) += 1;
    }
    pub fn add(&mut self, key: &str, n: u64) {
        *self.counters.entry(key.to_string()).or_insert(0) += n;
    }
}

pub struct ScenarioInfo {
    pub rule: String,
    pub real: Vec<&'static str>,
    pub stub: Vec<&'static str>,
    pub assumptions: Vec<&'static str>,
}

pub trait Scenario: Sync + Send {
    type Case: Serialize + DeserializeOwned + Clone + Send + std::fmt::Debug;

    fn engine(&self) -> &'static str;
    fn info(&self) -> ScenarioInfo;
    /// (number of enumerated cases, number of seeded random cases)
    fn num_cases(&self, tier: Tier) -> (u64, u64);
    /// index < enumerated → enumerated case `index`; otherwise random from `seed`.
    fn case(&self, index: u64, seed: u64, tier: Tier) -> Self::Case;
    fn execute(&self, case: &Self::Case) -> Outcome;
    /// Candidate simplifications, simplest/biggest reductions first.
    fn shrink(&self, case: &Self::Case) -> Vec<Self::Case>;
    /// Optional compact rendering for evidence samples.
    fn sample(&self, case: &Self::Case) -> Value {
        serde_json::to_value(case).unwrap_or(Value::Null)
    }
}

#[derive(Clone, Debug, Serialize, Deserialize)]
pub struct ReplayFile {
    pub property: String,
    pub rule: String,
    pub signature: Value,
    pub detail: String,
    pub engine: String,
    pub profile: String,
    pub seed: u64,
    pub run_index: u64,
    pub minimised: bool,
    pub shrink_steps: u64,
    pub log_digest: u64,
    pub case: Value,
}

#[derive(Default)]
pub struct BatchStats {
    pub evaluations: u64,
    pub enumerated: u64,
    pub exhaustive: bool,
    pub distinct: HashSet<u64>,
    pub nontrivial_runs: u64,
    pub counters: BTreeMap<String, u64>,
    pub samples: Vec<Value>,
    pub sim_ms: u64,
    pub faulty_runs: u64,
    pub fault_free_runs: u64,
    pub recheck_seeds: u64,
    pub recheck_mismatches: u64,
    pub harness_errors: Vec<String>,
    pub wall_s: f64,
    /// group key -> (run index, case json, violation, log digest)
    pub groups: BTreeMap<String, (u64, Value, Violation, u64)>,
    pub violation_runs: u64,
    pub cross_property: BTreeMap<String, u64>,
}

pub struct RunCfg {
    pub tier: Tier,
    pub seed: u64,
    pub threads: usize,
    pub runs_override: Option<u64>,
    pub property: String,
    pub profile: String,
}

pub fn run_seed(batch_seed: u64, index: u64) -> u64 {
    splitmix64(batch_seed ^ index.wrapping_mul(0x9E37_79B9_7F4A_7C15))
}

/// Run a batch of a scenario in parallel and aggregate.
pub fn run_batch<S: Scenario>(sc: &S, cfg: &RunCfg) -> BatchStats {
    let (n_enum, mut n_rand) = sc.num_cases(cfg.tier);
    if let Some(r) = cfg.runs_override {
        n_rand = r;
    }
    let total = n_enum + n_rand;
    let next = AtomicU64::new(0);
    let start = Instant::now();
    let merged = Mutex::new(BatchStats::default());
    let recheck_every = (total / 64).max(1);

    // watchdog: a check never hangs. A run that takes longer than the limit of wall-clock time is a
    // mistake in a harness (every scenario bounds its own virtual time); say which one and stop.
    let limit_s: u64 = std::env::var("VERIF_RUN_WALL_LIMIT_S").ok().and_then(|v| v.parse().ok()).unwrap_or(180);
    let running: Vec<Mutex<Option<(u64, u64, Instant)>>> = (0..cfg.threads.max(1)).map(|_| Mutex::new(None)).collect();
    let done = std::sync::atomic::AtomicBool::new(false);
    let engine = sc.engine();

    std::thread::scope(|scope| {
        scope.spawn(|| {
            while !done.load(Ordering::Relaxed) {
                std::thread::sleep(std::time::Duration::from_millis(500));
                for slot in &running {
                    if let Some((i, seed, t)) = *slot.lock().unwrap() {
                        if t.elapsed().as_secs() > limit_s {
                            // Every scenario bounds its own virtual time and every simulated seam
                            // yields, so a run that does not come back is code under test looping
                            // inside one poll (or never letting the clock move). That violates
                            // the property this batch checks - nothing is served any more - and
                            // is reported as such, with the case as replay file (replaying it
                            // does not terminate either; `replay` applies the same limit).
                            let case = sc.case(i, seed, cfg.tier);
                            let rf = ReplayFile {
                                property: cfg.property.clone(),
                                rule: "does_not_terminate".into(),
                                signature: serde_json::json!({"engine": engine}),
                                detail: format!(
                                    "engine {} run {} (seed {}) did not finish within {} s of wall-clock time: the code under test loops without yielding, or everything is blocked with no timer pending (each scenario bounds its own virtual time)",
                                    engine, i, seed, limit_s
                                ),
                                engine: engine.to_string(),
                                profile: cfg.profile.clone(),
                                seed,
                                run_index: i,
                                minimised: false,
                                shrink_steps: 0,
                                log_digest: 0,
                                case: serde_json::to_value(&case).unwrap_or(Value::Null),
                            };
                            let path = write_replay(&rf, false);
                            println!("VIOLATION property={} replay={}", rf.property, path.display());
                            println!("  rule={} signature={} detail={}", rf.rule, rf.signature, rf.detail);
                            println!("hdsim: property={} tier={} seed={} runs=(aborted) violations=1 known_finding_hits=0", cfg.property, cfg.tier.name(), cfg.seed);
                            std::process::exit(1);
                        }
                    }
                }
            }
        });
        let workers: Vec<_> = (0..cfg.threads.max(1))
            .map(|wi| {
                let running = &running;
                let next = &next;
                let merged = &merged;
                scope.spawn(move || {
                let mut local = BatchStats::default();
                loop {
                    let i = next.fetch_add(1, Ordering::Relaxed);
                    if i >= total {
                        *running[wi].lock().unwrap() = None;
                        break;
                    }
                    let seed = run_seed(cfg.seed, i);
                    *running[wi].lock().unwrap() = Some((i, seed, Instant::now()));
                    let case = sc.case(i, seed, cfg.tier);
                    let out = match std::panic::catch_unwind(std::panic::AssertUnwindSafe(|| sc.execute(&case))) {
                        Ok(o) => o,
                        Err(_) => {
                            let p = crate::simrt::take_panics();
                            let mut o = Outcome::default();
                            o.harness_error = Some(format!(
                                "execute panicked: {}",
                                p.last().map(|p| format!("{} at {}", p.message, p.location())).unwrap_or_default()
                            ));
                            o
                        }
                    };
                    local.evaluations += 1;
                    if i < n_enum {
                        local.enumerated += 1;
                    }
                    if i % recheck_every == 0 {
                        // in-process determinism recheck: same case, same digest
                        let again = sc.execute(&case);
                        local.recheck_seeds += 1;
                        if again.log_digest != out.log_digest
                            || again.violations.len() != out.violations.len()
                        {
                            local.recheck_mismatches += 1;
                            local.harness_errors.push(format!(
                                "determinism mismatch on run {} (seed {}): {:x} vs {:x}",
                                i, seed, out.log_digest, again.log_digest
                            ));
                        }
                    }
                    if let Some(e) = &out.harness_error {
                        if local.harness_errors.len() < 5 {
                            local.harness_errors.push(format!("run {} seed {}: {}", i, seed, e));
                        }
                    }
                    if out.nontrivial {
                        local.nontrivial_runs += 1;
                        local.distinct.insert(out.abstract_sig);
                    }
                    for (k, v) in &out.counters {
                        *local.counters.entry(k.clone()).or_insert(0) += v;
                    }
                    local.sim_ms += out.sim_ms;
                    if out.faulty {
                        local.faulty_runs += 1;
                    } else {
                        local.fault_free_runs += 1;
                    }
                    if i < 3 || (i >= n_enum && i < n_enum + 3) {
                        local.samples.push(json!({"run": i, "seed": seed, "case": sc.sample(&case)}));
                    }
                    if !out.violations.is_empty() {
                        local.violation_runs += 1;
                        let case_json = serde_json::to_value(&case).unwrap();
                        for v in out.violations {
                            if v.property != cfg.property {
                                *local
                                    .cross_property
                                    .entry(format!("{}:{}", v.property, v.rule))
                                    .or_insert(0) += 1;
                                continue;
                            }
                            let key = v.group_key();
                            let replace = match local.groups.get(&key) {
                                Some((j, _, _, _)) => i < *j,
                                None => true,
                            };
                            if replace {
                                local
                                    .groups
                                    .insert(key, (i, case_json.clone(), v, out.log_digest));
                            }
                        }
                    }
                }
                let mut m = merged.lock().unwrap();
                m.evaluations += local.evaluations;
                m.enumerated += local.enumerated;
                m.nontrivial_runs += local.nontrivial_runs;
                m.distinct.extend(local.distinct);
                for (k, v) in local.counters {
                    *m.counters.entry(k).or_insert(0) += v;
                }
                m.samples.extend(local.samples);
                m.sim_ms += local.sim_ms;
                m.faulty_runs += local.faulty_runs;
                m.fault_free_runs += local.fault_free_runs;
                m.recheck_seeds += local.recheck_seeds;
                m.recheck_mismatches += local.recheck_mismatches;
                m.harness_errors.extend(local.harness_errors);
                m.violation_runs += local.violation_runs;
                for (k, v) in local.cross_property {
                    *m.cross_property.entry(k).or_insert(0) += v;
                }
                for (k, g) in local.groups {
                    let replace = match m.groups.get(&k) {
                        Some((j, _, _, _)) => g.0 < *j,
                        None => true,
                    };
                    if replace {
                        m.groups.insert(k, g);
                    }
                }
                })
            })
            .collect();
        for w in workers {
            let _ = w.join();
        }
        done.store(true, Ordering::Relaxed);
    });

    let mut m = merged.into_inner().unwrap();
    m.samples
        .sort_by_key(|s| s.get("run").and_then(|r| r.as_u64()).unwrap_or(0));
    m.samples.truncate(4);
    m.exhaustive = n_rand == 0 && n_enum > 0;
    m.wall_s = start.elapsed().as_secs_f64();
    m
}

/// Greedy delta-debugging over `Scenario::shrink` candidates.
pub fn minimise<S: Scenario>(
    sc: &S,
    case: &S::Case,
    target: &Violation,
    budget: u64,
) -> (S::Case, Violation, u64, u64) {
    let mut best = case.clone();
    let mut best_v = target.clone();
    let mut best_digest = 0;
    let mut execs = 0u64;
    let mut steps = 0u64;
    let started = Instant::now();
    // wall-clock cap as well: some engines cost tens of milliseconds per execution
    let wall_cap = std::time::Duration::from_secs(if budget > 2000 { 90 } else { 25 });
    'outer: loop {
        let cands = sc.shrink(&best);
        for c in cands {
            if execs >= budget || started.elapsed() > wall_cap {
                break 'outer;
            }
            execs += 1;
            let out = sc.execute(&c);
            // keep exactly the same violation class: (property, rule, signature)
            if let Some(v) = out
                .violations
                .iter()
                .find(|v| v.property == target.property && v.rule == target.rule && v.signature == target.signature)
            {
                // keep the same violation class (property, rule); prefer identical signature
                best = c;
                best_v = v.clone();
                best_digest = out.log_digest;
                steps += 1;
                continue 'outer;
            }
        }
        break;
    }
    if best_digest == 0 {
        let out = sc.execute(&best);
        best_digest = out.log_digest;
        if let Some(v) = out
            .violations
            .iter()
            .find(|v| v.property == target.property && v.rule == target.rule && v.signature == target.signature)
        {
            best_v = v.clone();
        }
    }
    (best, best_v, steps, best_digest)
}

#[derive(Clone, Debug, Deserialize, Serialize)]
pub struct KnownFinding {
    pub property: String,
    pub rule: String,
    #[serde(default)]
    pub r#match: Value,
    pub what: String,
}

#[derive(Clone, Debug, Deserialize, Serialize, Default)]
pub struct KnownFindings {
    #[serde(default)]
    pub findings: Vec<KnownFinding>,
    #[serde(default)]
    pub fixed: Vec<String>,
}

pub fn verif_root() -> PathBuf {
    if let Ok(p) = std::env::var("VERIF_ROOT") {
        return PathBuf::from(p);
    }
    // the binary lives in <root>/target/<profile>/hdsim
    if let Ok(exe) = std::env::current_exe() {
        if let Some(root) = exe.parent().and_then(|p| p.parent()).and_then(|p| p.parent()) {
            if root.join("properties.jsonl").exists() {
                return root.to_path_buf();
            }
        }
    }
    PathBuf::from("/verif")
}

pub fn load_known_findings() -> KnownFindings {
    let p = verif_root().join("known_findings.json");
    match std::fs::read_to_string(&p) {
        Ok(s) => serde_json::from_str(&s).unwrap_or_else(|e| {
            eprintln!("HARNESS-ERROR: cannot parse {}: {}", p.display(), e);
            std::process::exit(2);
        }),
        Err(_) => KnownFindings::default(),
    }
}

impl KnownFinding {
    pub fn matches(&self, v: &Violation) -> bool {
        if self.property != v.property || self.rule != v.rule {
            return false;
        }
        match (&self.r#match, &v.signature) {
            (Value::Object(m), Value::Object(sig)) => m.iter().all(|(k, val)| sig.get(k) == Some(val)),
            (Value::Null, _) => true,
            (Value::Object(m), _) => m.is_empty(),
            _ => false,
        }
    }
}

pub fn write_replay(rf: &ReplayFile, tmp: bool) -> PathBuf {
    let dir = verif_root().join("replays");
    let _ = std::fs::create_dir_all(&dir);
    let sig_hash = crate::rng::fnv1a(rf.signature.to_string().as_bytes()) & 0xffff_ffff;
    let name = format!(
        "{}{}-{}-{:08x}-{}.json",
        if tmp { "tmp-" } else { "" },
        rf.property,
        rf.rule,
        sig_hash,
        rf.seed
    );
    let path = dir.join(name);
    std::fs::write(&path, serde_json::to_string_pretty(rf).unwrap()).expect("write replay");
    path
}

pub fn read_replay(path: &Path) -> ReplayFile {
    let s = std::fs::read_to_string(path).unwrap_or_else(|e| {
        eprintln!("HARNESS-ERROR: cannot read replay {}: {}", path.display(), e);
        std::process::exit(2);
    });
    serde_json::from_str(&s).unwrap_or_else(|e| {
        eprintln!("HARNESS-ERROR: cannot parse replay {}: {}", path.display(), e);
        std::process::exit(2);
    })
}

/// Re-execute a replay file in a fresh process and require the same (property, rule, signature).
pub fn verify_in_fresh_process(path: &Path, rf: &ReplayFile) -> Result<(), String> {
    let exe = std::env::current_exe().map_err(|e| e.to_string())?;
    let out = std::process::Command::new(exe)
        .arg("replay")
        .arg(path)
        .arg("--machine")
        .output()
        .map_err(|e| e.to_string())?;
    let stdout = String::from_utf8_lossy(&out.stdout);
    for line in stdout.lines() {
        if let Some(rest) = line.strip_prefix("REPLAY-RESULT ") {
            let v: Value = serde_json::from_str(rest).map_err(|e| e.to_string())?;
            let same = v.get("property").and_then(|x| x.as_str()) == Some(rf.property.as_str())
                && v.get("rule").and_then(|x| x.as_str()) == Some(rf.rule.as_str())
                && v.get("signature") == Some(&rf.signature)
                && v.get("log_digest").and_then(|x| x.as_u64()) == Some(rf.log_digest);
            if same {
                return Ok(());
            }
            return Err(format!("fresh-process replay differs: {} (expected rule={} sig={} digest={})", rest, rf.rule, rf.signature, rf.log_digest));
        }
    }
    Err(format!(
        "fresh-process replay produced no result (exit {:?}): {}",
        out.status.code(),
        String::from_utf8_lossy(&out.stderr)
    ))
}

pub struct Part {
    pub engine: &'static str,
    pub info: ScenarioInfo,
    pub stats: BatchStats,
}

pub struct Verdict {
    pub violations: u64,
    pub known: u64,
    pub harness_errors: Vec<String>,
    pub lines: Vec<String>,
    pub replays: Vec<String>,
}

/// Minimise, persist, re-verify and classify the violation groups of one scenario batch.
pub fn settle<S: Scenario>(sc: &S, cfg: &RunCfg, stats: &BatchStats, known: &KnownFindings, verdict: &mut Verdict) {
    let mut processed = 0;
    let mut known_printed: HashMap<String, bool> = HashMap::new();
    let mut reported: HashSet<String> = HashSet::new();
    for (_key, (run_index, case_json, v, _digest)) in stats.groups.iter() {
        // quick classification first so that known findings do not cost minimisation time
        if let Some(k) = known.findings.iter().find(|k| k.matches(v)) {
            verdict.known += 1;
            if known_printed.insert(k.what.clone(), true).is_none() {
                verdict
                    .lines
                    .push(format!("KNOWN-FINDING: property={} {}", k.property, k.what));
            }
            continue;
        }
        processed += 1;
        if processed > 6 {
            // still a violation, but do not spend unbounded time minimising
            verdict.violations += 1;
            continue;
        }
        let case: S::Case = serde_json::from_value(case_json.clone()).expect("case roundtrip");
        let budget = if cfg.tier == Tier::Quick { 1500 } else { 6000 };
        let (min_case, min_v, steps, digest) = minimise(sc, &case, v, budget);
        // a minimised case may turn out to be a known finding in disguise
        if let Some(k) = known.findings.iter().find(|k| k.matches(&min_v)) {
            // fall back to the unminimised one
            let out = sc.execute(&case);
            let rf = ReplayFile {
                property: v.property.clone(),
                rule: v.rule.clone(),
                signature: v.signature.clone(),
                detail: v.detail.clone(),
                engine: sc.engine().to_string(),
                profile: cfg.profile.clone(),
                seed: run_seed(cfg.seed, *run_index),
                run_index: *run_index,
                minimised: false,
                shrink_steps: 0,
                log_digest: out.log_digest,
                case: case_json.clone(),
            };
            let _ = k;
            finish_violation(rf, verdict);
            continue;
        }
        if !reported.insert(min_v.group_key()) {
            continue; // minimised to a violation that was already reported
        }
        let rf = ReplayFile {
            property: min_v.property.clone(),
            rule: min_v.rule.clone(),
            signature: min_v.signature.clone(),
            detail: min_v.detail.clone(),
            engine: sc.engine().to_string(),
            profile: cfg.profile.clone(),
            seed: run_seed(cfg.seed, *run_index),
            run_index: *run_index,
            minimised: true,
            shrink_steps: steps,
            log_digest: digest,
            case: serde_json::to_value(&min_case).unwrap(),
        };
        finish_violation(rf, verdict);
    }
}

fn finish_violation(rf: ReplayFile, verdict: &mut Verdict) {
    let path = write_replay(&rf, false);
    match verify_in_fresh_process(&path, &rf) {
        Ok(()) => {
            verdict.violations += 1;
            verdict.lines.push(format!(
                "VIOLATION property={} replay={}",
                rf.property,
                path.display()
            ));
            verdict.lines.push(format!(
                "  rule={} signature={} detail={}",
                rf.rule, rf.signature, rf.detail
            ));
            verdict.replays.push(path.display().to_string());
        }
        Err(e) => {
            verdict.harness_errors.push(format!(
                "replay {} did not reproduce in a fresh process: {}",
                path.display(),
                e
            ));
        }
    }
}

#[allow(clippy::too_many_arguments)]
pub fn write_evidence(
    property: &str,
    level: &str,
    cfg: &RunCfg,
    parts: &[Part],
    verdict: &Verdict,
    wall_s: f64,
    extra: Value,
) {
    let mut evaluations = 0u64;
    let mut distinct = 0u64;
    let mut samples = vec![];
    let mut counters: BTreeMap<String, u64> = BTreeMap::new();
    let mut sim_ms = 0u64;
    let mut faulty = 0u64;
    let mut fault_free = 0u64;
    let mut recheck = (0u64, 0u64);
    let mut rules = vec![];
    let mut real: Vec<&str> = vec![];
    let mut stub: Vec<&str> = vec![];
    let mut assumptions: Vec<String> = vec![];
    let mut per_engine = vec![];
    let mut exhaustive_all = !parts.is_empty();
    let mut cross: BTreeMap<String, u64> = BTreeMap::new();
    for p in parts {
        evaluations += p.stats.evaluations;
        distinct += p.stats.distinct.len() as u64;
        for s in &p.stats.samples {
            samples.push(json!({"engine": p.engine, "sample": s}));
        }
        for (k, v) in &p.stats.counters {
            *counters.entry(k.clone()).or_insert(0) += v;
        }
        for (k, v) in &p.stats.cross_property {
            *cross.entry(k.clone()).or_insert(0) += v;
        }
        sim_ms += p.stats.sim_ms;
        faulty += p.stats.faulty_runs;
        fault_free += p.stats.fault_free_runs;
        recheck.0 += p.stats.recheck_seeds;
        recheck.1 += p.stats.recheck_mismatches;
        rules.push(format!("[{}] {}", p.engine, p.info.rule));
        for r in &p.info.real {
            if !real.contains(r) {
                real.push(r);
            }
        }
        for r in &p.info.stub {
            if !stub.contains(r) {
                stub.push(r);
            }
        }
        for a in &p.info.assumptions {
            if !assumptions.iter().any(|x| x == a) {
                assumptions.push(a.to_string());
            }
        }
        exhaustive_all &= p.stats.exhaustive;
        per_engine.push(json!({
            "engine": p.engine,
            "evaluations": p.stats.evaluations,
            "enumerated": p.stats.enumerated,
            "nontrivial_runs": p.stats.nontrivial_runs,
            "distinct_nontrivial": p.stats.distinct.len(),
            "violation_runs": p.stats.violation_runs,
            "wall_s": p.stats.wall_s,
        }));
    }
    let faults: BTreeMap<&str, u64> = counters
        .iter()
        .filter_map(|(k, v)| k.strip_prefix("fault.").map(|k| (k, *v)))
        .collect();
    let probes: BTreeMap<&str, u64> = counters
        .iter()
        .filter_map(|(k, v)| k.strip_prefix("probe.").map(|k| (k, *v)))
        .collect();
    let other: BTreeMap<&str, u64> = counters
        .iter()
        .filter(|(k, _)| !k.starts_with("fault.") && !k.starts_with("probe."))
        .map(|(k, v)| (k.as_str(), *v))
        .collect();
    let runs_per_hour = if wall_s > 0.0 {
        (evaluations as f64 / wall_s * 3600.0) as u64
    } else {
        0
    };
    let mut coverage = json!({
        "evaluations": evaluations,
        "distinct_nontrivial": distinct,
        "rule": rules.join(" || "),
        "samples": samples,
        "exhaustive": exhaustive_all,
        "runs_per_hour": runs_per_hour,
        "seeds": format!("batch seed {} ; run i uses splitmix64(seed ^ i*phi)", cfg.seed),
        "simulated_time_s": sim_ms as f64 / 1000.0,
        "faults_fired": faults,
        "fault_free_runs": fault_free,
        "faulty_runs": faulty,
        "probes": probes,
        "counters": other,
        "known_finding_hits": verdict.known,
        "cross_property_notes": cross,
        "components": {"real": real, "stub": stub},
        "determinism_recheck": {"seeds": recheck.0, "mismatches": recheck.1},
        "per_engine": per_engine,
        "harness_errors": verdict.harness_errors,
        "replays": verdict.replays,
    });
    if let (Value::Object(c), Value::Object(e)) = (&mut coverage, extra) {
        for (k, v) in e {
            c.insert(k, v);
        }
    }
    let ev = json!({
        "property_id": property,
        "tier": cfg.tier.name(),
        "seed": cfg.seed,
        "level": level,
        "coverage": coverage,
        "assumptions": assumptions,
        "wall_s": wall_s,
        "violations": verdict.violations,
    });
    // (the sensitivity tools, which run the checks against deliberately broken trees, point this elsewhere)
    let dir = std::env::var("VERIF_EVIDENCE_DIR").map(std::path::PathBuf::from).unwrap_or_else(|_| verif_root().join("evidence"));
    let _ = std::fs::create_dir_all(&dir);
    let path = dir.join(format!("{}.json", property));
    std::fs::write(&path, serde_json::to_string_pretty(&ev).unwrap()).expect("write evidence");
}
