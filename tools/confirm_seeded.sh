#!/bin/bash
# usage: confirm_seeded.sh <id> <dir with patch.diff> <demo .rs file> -- confirms a seeded change in a scratch worktree:
#   existing suite passes with it, the demonstration fails with it and passes without it.
set -u
ID=$1; DIR=$2; DEMO=$3
WT=/tmp/mut/$ID
export CARGO_NET_OFFLINE=true CARGO_TARGET_DIR=/tmp/repotarget
[ -d $WT ] || git -C /repo worktree add -q --detach $WT HEAD
cd $WT && git checkout -q --detach $(git -C /repo rev-parse HEAD) && git checkout -- . && git clean -fdq
git apply $DIR/patch.diff || { echo "RESULT $ID patch does not apply"; exit 2; }
suite=$(cargo test --workspace --no-fail-fast --offline 2>&1 | grep -E "^test result" | awk '{p+=$4; f+=$6} END{print p"/"f}')
name=$(basename $DEMO .rs)
cp $DEMO tests/$name.rs
with=$(cargo test --offline ${FEATURES:-} --test $name 2>&1 | grep -E "^test result" | tail -1)
git checkout -- . 
without=$(cargo test --offline ${FEATURES:-} --test $name 2>&1 | grep -E "^test result" | tail -1)
rm -f tests/$name.rs
echo "RESULT $ID suite_with_change(pass/fail)=$suite | demo_with_change: $with | demo_without: $without"
