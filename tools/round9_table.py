#!/usr/bin/env python3
"""Prints the round-9 table of SENSITIVITY.md from seeded/<id>m/meta.json."""
import json, glob
rows = []
for f in sorted(glob.glob('/verif/seeded/C??m/meta.json')):
    d = json.load(open(f))
    c = d['checks']
    first = '**missed** - ' + c.get('strengthened', '') if c['missed_by_first_version_of_check'] else 'caught'
    rows.append('| %s | %s | %s | %s |' % (d['id'], d['change'].replace('|', '/'), first.replace('|', '/'), c['caught_by'].replace('|', '/')))
print('| id | change (one line) | first run of my check | now (quick tier, default seed) |\n|---|---|---|---|')
print('\n'.join(rows))
