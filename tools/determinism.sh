#!/bin/bash
# usage: determinism.sh <target> <runs> [procs]  -- run the same seeds in several concurrent processes and diff the logs
T=$1; N=$2; P=${3:-4}
git -C /repo diff --quiet || { echo "determinism.sh: /repo has uncommitted changes"; exit 2; }
(cd /verif/sim && CARGO_NET_OFFLINE=true cargo build --offline --profile sim >/dev/null 2>&1) || { echo "determinism.sh: build failed"; exit 2; }
D=$(mktemp -d)
for i in $(seq 1 $P); do ( /verif/target/sim/hdsim determinism $T --runs $N > $D/$i.log 2>$D/$i.err ) & done
wait
ok=1
for i in $(seq 2 $P); do cmp -s $D/1.log $D/$i.log || { ok=0; diff $D/1.log $D/$i.log | head -5; }; done
lines=$(wc -l < $D/1.log)
echo "determinism target=$T runs=$lines processes=$P identical=$ok"
rm -rf $D
