#!/usr/bin/env python3
"""Generates /verif/MANIFEST.json from the table below and validates it against the schema."""
import json, os, subprocess, sys
ROOT = os.path.dirname(os.path.dirname(os.path.abspath(__file__)))

HOOK_COMMITS = ["424d91d", "9dba8ee", "9908f96"]

# property -> (engine, category, technique, text, note, design_ref)
CHECKS = {
 "C10": ("eyesim", "exploration",
         "deterministic simulation: EyeballSet over scripted attempts in virtual time; small grids enumerated, larger ones by seeded search; predicate oracle over recorded start/finish instants",
         "Every configuration with N<=2 (quick) / N<=3 (thorough) candidates on the outcome x latency x delay x timeout x concurrency grid is executed, plus seeded random cases up to N=6 with off-grid values; the result is checked against predicates over the scripted outcomes and the instants the real code started each attempt. Exploration, not proof: beyond the enumerated grid it samples.",
         "trusts tokio's paused clock / timer ordering and FuturesUnordered; attempts are scripted futures, TcpConnecting's sockets are not run",
         "DESIGN.md 5 (C10), 4.C"),
 "C11": ("eyesim", "exploration",
         "deterministic simulation: same runs as C10; recorded first-poll / completion / drop instants compared with a reference pacing model (exact until the first same-millisecond tie)",
         "Start order, at-most-once, initial batch size, earliest-legal-start = min(last start + stagger, next failure), nothing after the result, overall deadline, all attempts dropped at completion; grid enumerated for small N and sampled above.",
         "ties between a success, a failure and a stagger tick in the same millisecond are not judged (either order is legal); initial concurrency 0 is treated as 1 (something must start for progress)",
         "DESIGN.md 5 (C11), 4.C"),
}

NOT_APPLICABLE = {
 "C16": "pure function of an address list and a preference (SocketAddrs::sort_preferred / set_port): no schedule, clock, fault or I/O for a simulator to own; the start-order clause is the C11 start-order rule composed with a FIFO pop; the end-to-end variant needs kernel sockets, which have no seam. See DESIGN.md 6.",
 "C20": "pure function of one request and one TlsConnectionInfo (sni::handle): quantifier over inputs only, nothing for deterministic simulation to schedule or fault. See DESIGN.md 6.",
}

PENDING = "check not built yet in this round (planned, see DESIGN.md 5); not claimed until it runs"
ALL = ["C%02d" % i for i in range(1, 21)]

def main():
    checks = []
    for pid in ALL:
        if pid not in CHECKS:
            continue
        engine, cat, technique, text, note, ref = CHECKS[pid]
        checks.append({
            "property_id": pid,
            "quick_cmd": "./check %s quick" % pid,
            "thorough_cmd": "./check %s thorough" % pid,
            "evidence_file": "/verif/evidence/%s.json" % pid,
            "replay_cmd_template": "./check %s --replay {path}" % pid,
            "engine": engine,
            "level_claimed": {"category": cat, "text": text, "design_ref": ref},
            "level_note": note,
            "technique": technique,
        })
    na = []
    for pid in ALL:
        if pid in CHECKS:
            continue
        na.append({"property_id": pid, "reason": NOT_APPLICABLE.get(pid, PENDING)})
    engines = {}
    for pid, c in CHECKS.items():
        engines.setdefault(c[0], []).append(pid)
    m = {
        "version": 1,
        "setup_cmd": "cd /verif/sim && CARGO_NET_OFFLINE=true cargo build --offline --profile sim",
        "hooks": {
            "guard": "cargo feature `verif-hooks` of hyperdriver (off by default)",
            "enable": "the simulator crate /verif/sim depends on hyperdriver by path (/repo) with features client,server,stream,tls,tls-ring,sni,verif-hooks; ./check rebuilds it before every run",
            "baseline_off_cmd": "cd /repo && cargo test --workspace --no-fail-fast --offline",
            "source_commits": HOOK_COMMITS,
            "add_only": False,
        },
        "engines": [{"name": k, "path": "/verif/sim/src", "serves_properties": sorted(v),
                     "kind_free_text": "deterministic simulation with fault injection (seeded, replayable, virtual time)"} for k, v in sorted(engines.items())],
        "checks": checks,
        "not_applicable": na,
        "notes": "All checks are `./check <id> quick|thorough`; VERIF_SEED selects the batch seed (default 0x5EED2026). Exit 0 held / 1 VIOLATION (replay file under /verif/replays) / 2 harness error. Known findings: /verif/known_findings.json.",
    }
    path = os.path.join(ROOT, "MANIFEST.json")
    json.dump(m, open(path, "w"), indent=1)
    try:
        import jsonschema
        jsonschema.validate(m, json.load(open("/root/.vp/MANIFEST.schema.json")))
        print("MANIFEST.json valid;", len(checks), "checks,", len(na), "not claimed")
    except ImportError:
        print("jsonschema not available; wrote without validating")

if __name__ == "__main__":
    main()
