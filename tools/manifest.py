#!/usr/bin/env python3
"""Generates /verif/MANIFEST.json from the table below and validates it against the schema."""
import json, os, subprocess, sys
ROOT = os.path.dirname(os.path.dirname(os.path.abspath(__file__)))

HOOK_COMMITS = ["424d91d", "9dba8ee", "9908f96", "db73fbd", "0a2def0"]

# property -> (engine, category, technique, text, note, design_ref)
CHECKS = {
 "C10": ("eyesim+realconnect", "exploration",
         "deterministic simulation: EyeballSet over scripted attempts in virtual time; small grids enumerated, larger ones by seeded search; predicate oracle over recorded start/finish instants; second part (realconnect): TcpTransport::connect_to_addrs and Service::call with a static resolver against 0..5 listening / refusing loopback addresses (all combinations up to 4 enumerated) for the wiring the core cannot see (candidate order, port, returned stream, error mapping)",
         "Every configuration with N<=2 (quick) / N<=3 (thorough) candidates on the outcome x latency x delay x timeout x concurrency grid is executed, plus seeded random cases up to N=6 with off-grid values; the result is checked against predicates over the scripted outcomes and the instants the real code started each attempt. Exploration, not proof: beyond the enumerated grid it samples.",
         "trusts tokio's paused clock / timer ordering and FuturesUnordered; in the virtual-time part attempts are scripted futures; the realconnect part uses real loopback sockets, where only accept-at-once and refuse-at-once exist (no latency, no hang)",
         "DESIGN.md 5 (C10), 4.C"),
 "C11": ("eyesim+realconnect", "exploration",
         "deterministic simulation: same runs as C10; recorded first-poll / completion / drop instants compared with a reference pacing model (exact until the first same-millisecond tie); second part (realconnect): over real loopback sockets the listeners' backlogs tell which candidates were attempted - order, at most once, nothing beyond the winner under concurrency 1, nothing beyond winner + c - 1 under concurrency c; with nothing but a hanging candidate (full accept queue; alone or followed by refusing ones) the operation ends by the overall deadline of 1 s whatever the per-attempt timeout (5 s / none)",
         "Start order, at-most-once, initial batch size, earliest-legal-start = min(last start + stagger, next failure), nothing after the result, overall deadline, all attempts dropped at completion; grid enumerated for small N and sampled above.",
         "ties between a success, a failure and a stagger tick in the same millisecond are not judged (either order is legal); initial concurrency 0 is treated as 1 (something must start for progress)",
         "DESIGN.md 5 (C11), 4.C"),
}

POOL_NOTE = "stub transport/protocol/connection (SimConn models HttpConnection: is_open = open && (h2 || !busy), can_share = h2); unit of interleaving = one poll/drop of one future; tokio current-thread scheduler and paused clock trusted"
POOL_TECH = "deterministic simulation: the real pool between stub endpoints, seeded step lists (issue/poll/cancel/dial/handshake/respond/close/spurious readiness wake-up/panic in the response future/background/clock, finished request futures dropped at completion or kept alive, more than a thousand origins, sending through the dereferenced handle, and - C03/C14/C15/C17/C19 - back-pressure gates on the transport's and the inner service's poll_ready) with fault injection, requests issued readiness-first as tower's Oneshot does, drain + probe phases; invariants at every hand-off and history checks; delta-debugged replay files"
def pool(text, ref):
    return ("poolsim", "exploration", POOL_TECH, text + " Seeded search over schedules and fault sequences, not enumeration: a clean batch is evidence, not proof.", POOL_NOTE, ref)
CHECKS.update({
 "C02": ("poolsim+e2esim",) + pool("At every hand-off of an HTTP/1 connection: no other holder, not busy since its previous exchange, not taken over by an upgrade, exactly one live handle. Second part (e2esim): the real HttpConnection (stubbed in the pool part) under the real pool against real servers - in a fault-free run no request is refused by hyper on the spot, without reaching a handler, while another request's HTTP/1 exchange with the same origin is in progress.", "DESIGN.md 5 (C02), 4.A, 12")[1:],
 "C03": pool("After a fault-free drain (all dials/handshakes/responses resolved, background quiescent, only woken futures polled) every non-cancelled request must be ready; a forced poll distinguishes lost wake-ups from stranded requests; a probe request per origin must then succeed.", "DESIGN.md 5 (C03), 4.A"),
 "C04": pool("An open HTTP/1 connection whose exchanges were all delivered must not be destroyed by the pool (no idle limit or timeout in this profile). Every transport connect call is attributed to its request and classified from the state at that request's issue step: idle connection present at a quiescent point, HTTP/2 attempt in flight, HTTP/2 connection established; cancelling an unserved request must not destroy idle connections. Ambiguous competition is not judged.", "DESIGN.md 5 (C04), 4.A"),
 "C05": pool("At every hand-off of a pooled connection: not closed before the request was issued nor before its hand-back; not idle longer than idle_timeout at the issue instant (virtual clock via hook H2), for idle durations on both sides of the limit.", "DESIGN.md 5 (C05), 4.A"),
 "C06": ("poolsim+realconnect",) + pool("Second part (realconnect): the real TcpTransport with a static resolver whose answer carries another port than the URI - the returned stream must be connected to the URI's port. At every hand-off the (scheme, authority) the connection was dialed for equals the request's, over 2-4 origins that differ only in scheme (http, https, ws, wss), port, case, user information or host, a third of the runs with caller-supplied Host headers that name another configured authority, with waiters and idle connections alive for several at once.", "DESIGN.md 5 (C06), 4.A")[1:],
 "C14": pool("After each hand-back / HTTP/2 registration the first request with a provably live waiter must be handed that connection at its very next poll; abandoned attempts complete into the pool (continue_after_preemption) or are dropped at once (otherwise), and leave nothing behind: after a run in which an attempt was abandoned no request is stranded and a fresh request to the origin completes.", "DESIGN.md 5 (C14), 4.A"),
 "C15": ("poolsim+e2eidle",) + pool("After every step: open idle HTTP/1 connections retained per origin, minus those in transit to a pending request that has not been polled since it was woken, never exceeds max_idle_per_host in {0,1,2,k-1,k,k+1}; a third of the runs address one origin under two spellings (host names are case-insensitive). Second part (e2eidle): the same bound through a real Client built by Client::builder() in every order of the builder calls, real servers and SimNet - 100 ms of virtual time after a burst of k concurrent HTTP/1.1 requests the connections the client still holds are counted.", "DESIGN.md 5 (C15), 4.A, 11")[1:],
 "C17": pool("Panic monitor (process-wide hook + catch_unwind around every call/poll/drop + background tasks) over step lists that include every http::Version constant, upgrades, cancels, service drop.", "DESIGN.md 5 (C17)"),
 "C18": ("iosim+realio", "exploration",
         "deterministic simulation: writer/reader scripts over each adapter stack on SimNet (seeded chunking, Pending injection, virtual delays, pipe capacity, over-initialising reads, flush-dependent writers, EOF/reset at byte offsets in either direction) compared with a reference FIFO; second part (realio): the same seeded writer/reader scripts over hyperdriver's TcpStream / UnixStream (connect, accept, pair), bare, inside Braid inside client/server Stream, and under TLS, carried by real loopback and Unix-domain sockets (fault-free)",
         "TokioIo in both directions, Rewind, client/server braid Stream (plain and TLS arms, either side writing), duplex transport: bytes received are always a prefix of the position-indexed reference stream, nothing beyond what was offered, EOF after shutdown, resets surface as errors, a transport cut under TLS surfaces as an error and never as end-of-stream, read-buffer contract (pre-filled bytes untouched, no over-report). Seeded search.",
         "the TCP/Unix wrappers and Braid arms run over real kernel sockets, where chunking is the kernel's and no fault can be injected; TLS runs with >=32 KiB pipe capacity (smaller socket buffers deadlock any TLS handshake); an endpoint is not used again after it returned an error",
         "DESIGN.md 5 (C18), 4.D"),
 "C19": ("timersim+poolsim+e2etimeout", "exploration",
         "deterministic simulation in virtual time: Timeout layer over a scripted inner future (grid enumerated) and over the real pool (deadline landing in every stage of a pooled request), with a follow-up probe; third part (e2etimeout): real client stack (every builder call order, with and without the redirect layer) and real servers, client timeout T, handler delays around T on every hop, one-hop redirects - every request resolves by T, and an HTTP/1 connection whose exchange was still in progress at the deadline never carries a later request (the abandoned exchange was dropped, not completed behind the caller's back)",
         "Resolves at issue+d with the timeout error unless the inner future was ready first (tie: either), inner result unchanged, inner future dropped at resolution and never polled again; over the pool: no hand-off after expiry, probe request to the same origin succeeds, and no later request to the origin is still pending once everything outstanding has been resolved (judged before its own deadline hides it).",
         "tokio paused clock trusted; same stubs as the other pool checks",
         "DESIGN.md 5 (C19), 4.A, 4.E"),
})

E2E_NOTE = "hyper 1.6 / h2 0.4 / rustls 0.23 are exercised as peers, not verified; network, handler and clock are the simulator's; hyper's Date header (real wall clock) is switched off; DNS/TCP/Unix sockets not run"
def e2e(engine, cat, tech, text, ref, note=E2E_NOTE):
    return (engine, cat, tech, text, note, ref)
CHECKS.update({
 "C01": e2e("e2esim", "exploration",
   "deterministic simulation: real client stack and real servers over SimNet (seeded chunking, Pending, virtual delays, EOF/reset at byte offsets, refused dials), seeded request mixes with cancels, redirects (followed or not, per the model of the redirect layer), caller-supplied User-Agent / Host / te: trailers, request and response bodies that end with a trailers frame, every order of the builder calls, server-side per-connection services that insist on tower's readiness contract (poll_ready before call, first answer Pending), make-services and client protocols that are not ready the first time they are asked; per-request identity/digest oracle at handler and client",
   "Every request carries its id three times (path, header, body pattern); the handler checks what it receives, the client checks status, headers, every body byte and the trailers of what it gets back (trailers must arrive over HTTP/2; over HTTP/1 only their content is judged), over HTTP/1.1, HTTP/2, TLS+ALPN, pooled reuse, concurrency, upgrades and cancels at every stage. Fault-free runs: every un-cancelled request must succeed; faulty runs: a failure is excused only by a transport fault on a connection of that origin; wrong or truncated data never.",
   "DESIGN.md 5 (C01), 4.B"),
 "C07": e2e("shutdown", "exploration",
   "deterministic simulation: graceful-shutdown signal at a seeded virtual instant against 0-4 connections in every stage (plain or behind the TLS acceptor; raw HTTP/1 clients that split heads and pipeline, hyper HTTP/2 clients, silent / TLS-stalled clients; http1-only servers also built through with_http1(); connects queued at the instant of the signal; a silent connection whose request the driver writes in the very step that fires the signal; the serving future consumed or kept alive after completion; a busy executor that first polls a connection task 0/1/4/15 virtual ms after it was handed over, so that the signal finds connections that were accepted but have never run); history oracle relative to the signal instant; executor wrapper counts connection tasks and parks a task that wakes itself 100 000 times in a row without any stream operation or time passing (reported as a spin)",
   "Serving future Ok(()) exactly at the signal; nothing connected afterwards is served; every request whose handler had started - or, on a plain HTTP/1 connection open at the signal, whose every byte the server has taken off the connection - completes correctly; every connection closed by the server and its task finished within 1 s (5 s with I/O delays) of its last exchange; idle and still-sniffing connections closed. http1 / http2 / auto.",
   "DESIGN.md 5 (C07), 4.B"),
 "C08": e2e("sniff", "fault_enumeration",
   "deterministic simulation with enumerated fragmentation: every single cut position (all streams) and every pair of cut positions (HTTP/2 preface; all streams in thorough) of the first 32 bytes, byte-at-a-time, plus seeded cut sets with short reads / Pending / delays, a client that half-closes after a complete request while the handler is still working, and a buffered (flush-dependent) transport under the server; differential oracle against plain hyper on the unfragmented stream",
   "Version seen by the handler is HTTP/2 iff the stream starts with the full preface; the response equals what plain hyper http1 / http2 answers to the same bytes, and the connection never hangs where plain hyper answers or closes; bodies longer than the sniff buffer are verified byte for byte behind the detector.",
   "DESIGN.md 5 (C08), 4.B"),
 "C09": e2e("srvfault", "fault_enumeration",
   "deterministic simulation with enumerated fault kind x stage (cancelled connect, connect-then-close, a duplex client that asks for an unusual stream buffer size (1 .. 2^40 bytes), garbage, head/body truncated at offsets, client gone mid-response, handler error, TLS garbage / plaintext / ClientHello truncated or stalled at offsets) x {SimNet, hyperdriver duplex} x {plain, TLS, TLS with Server::with_tls_connection_info()} x {auto, http1}, plus seeded fault sequences interleaved with well-behaved clients; second part (realsock): the TCP and Unix acceptors over real loopback / Unix-domain sockets with the order of system calls decided by the harness ({close, reset} x bytes written first x {in the listen backlog, after accept}, garbage, Unix peers bound to ordinary / non-UTF-8 paths), enumerated plus seeded sequences",
   "After every fault sequence the serving future is still pending, and every well-behaved client on its own connection (bystanders during the faults, a probe afterwards) gets its complete correct response within 30 s of virtual time.",
   "DESIGN.md 5 (C09), 4.B",
   E2E_NOTE + "; the TCP and Unix acceptors run over real kernel sockets (no seam): only the system-call order is controlled there, accept errors such as EMFILE cannot be injected; handler panics out of scope"),
 "C12": e2e("tlsmode", "fault_enumeration",
   "deterministic simulation with enumerated scheme x host form x certificate x peer behaviour (host forms include a legal URI host that is no legal TLS server name; incl. the genuine TLS server flight truncated at 40 offsets, closing or stalling) through TlsTransport and through the whole client stack (there also with 1-3 more concurrent HTTP/2 requests behind the same connection attempt), transport faults (reset / end-of-stream after 0..3000 bytes, either direction) under the handshake, and TLS configured twice on one transport; raw first bytes captured at the peer, SNI captured by a recording certificate resolver, certificate validity against a simulated wall clock",
   "https/wss: the peer's first bytes are a TLS handshake record, SNI = URI host (none for IP literals), success iff the certificate is valid for the URI host and the peer completes a genuine handshake; any failure is an Err with exactly one dial and no request reaching a handler; other schemes go out in clear; no host form panics.",
   "DESIGN.md 5 (C12), 4.B"),
 "C13": e2e("wire", "exploration",
   "deterministic simulation: grammar-drawn requests through the whole client stack with a seeded pool history so that request version and connection protocol differ, also over a protocol whose poll_ready answers Pending before every handshake; what hyper's server parsed from the wire is compared with a reference function of (request, connection protocol)",
   "Connection protocol = f(version of the dialing request, ALPN); HTTP/1: origin-form target byte-identical incl. empty path -> '/', authority-form for CONNECT, Host derived from the URI (port unless default) unless supplied; HTTP/2: no Host, no connection-specific headers, CONNECT rejected with InvalidMethod before anything is sent. The input-only part is as strong as the grammar sweep, no stronger.",
   "DESIGN.md 5 (C13), 4.B"),
})
CHECKS["C17"] = ("poolsim+grammar+e2esim", "exploration",
   "deterministic simulation with a process-wide panic monitor: (1) pool step lists incl. every http::Version constant, (2) the full cross product version x method x URI form x {Client, Client without pool, ConnectorService, ConnectorService over a URI-agnostic transport, the bare pooled service, the bare connector service, the connector over the real TcpTransport with a resolver that always fails} x {plain, TLS} against real servers, plus seeded header sets incl. obs-text values, (3) the ordinary end-to-end workload",
   "No panic in the caller's task nor in any library-spawned task (debug assertions on), and every call resolves with a response or an error within a minute of virtual time.",
   "hyper/h2/rustls exercised not verified; TcpTransport is run up to name resolution only (its reading of the URI, incl. port texts that are out of range, empty or zero); its sockets are not opened here",
   "DESIGN.md 5 (C17)")

NOT_APPLICABLE = {
 "C16": "pure function of an address list and a preference (SocketAddrs::sort_preferred / set_port): no schedule, clock, fault or I/O for a simulator to own; the start-order clause is the C11 start-order rule composed with a FIFO pop; the end-to-end variant needs kernel sockets, which have no seam. See DESIGN.md 6.",
 "C20": "pure function of one request and one TlsConnectionInfo (sni::handle): quantifier over inputs only, nothing for deterministic simulation to schedule or fault. See DESIGN.md 6.",
}

PENDING = "check not built yet in this round (planned, see DESIGN.md 5); not claimed until it runs"
ALL = ["C%02d" % i for i in range(1, 21)]

def main():
    checks = []
    for pid in ALL:
        if pid not in CHECKS:
            continue
        engine, cat, technique, text, note, ref = CHECKS[pid]
        checks.append({
            "property_id": pid,
            "quick_cmd": "./check %s quick" % pid,
            "thorough_cmd": "./check %s thorough" % pid,
            "evidence_file": "/verif/evidence/%s.json" % pid,
            "replay_cmd_template": "./check %s --replay {path}" % pid,
            "engine": engine,
            "level_claimed": {"category": cat, "text": text, "design_ref": ref},
            "level_note": note,
            "technique": technique,
        })
    na = []
    for pid in ALL:
        if pid in CHECKS:
            continue
        na.append({"property_id": pid, "reason": NOT_APPLICABLE.get(pid, PENDING)})
    engines = {}
    for pid, c in CHECKS.items():
        engines.setdefault(c[0], []).append(pid)
    m = {
        "version": 1,
        "setup_cmd": "cd /verif/sim && CARGO_NET_OFFLINE=true cargo build --offline --profile sim",
        "hooks": {
            "guard": "cargo feature `verif-hooks` of hyperdriver (off by default)",
            "enable": "the simulator crate /verif/sim depends on hyperdriver by path (/repo) with features client,server,stream,tls,tls-ring,sni,verif-hooks; ./check rebuilds it before every run",
            "baseline_off_cmd": "cd /repo && cargo test --workspace --no-fail-fast --offline",
            "source_commits": HOOK_COMMITS,
            "add_only": False,
        },
        "engines": [{"name": k, "path": "/verif/sim/src", "serves_properties": sorted(v),
                     "kind_free_text": "deterministic simulation with fault injection (seeded, replayable, virtual time)"} for k, v in sorted(engines.items())],
        "checks": checks,
        "not_applicable": na,
        "notes": "All checks are `./check <id> quick|thorough`; VERIF_SEED selects the batch seed (default 0x5EED2026). Exit 0 held / 1 VIOLATION (replay file under /verif/replays) / 2 harness error. Known findings: /verif/known_findings.json.",
    }
    path = os.path.join(ROOT, "MANIFEST.json")
    json.dump(m, open(path, "w"), indent=1)
    try:
        import jsonschema
        jsonschema.validate(m, json.load(open("/root/.vp/MANIFEST.schema.json")))
        print("MANIFEST.json valid;", len(checks), "checks,", len(na), "not claimed")
    except ImportError:
        print("jsonschema not available; wrote without validating")

if __name__ == "__main__":
    main()
