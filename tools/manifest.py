#!/usr/bin/env python3
"""Generates /verif/MANIFEST.json from the table below and validates it against the schema."""
import json, os, subprocess, sys
ROOT = os.path.dirname(os.path.dirname(os.path.abspath(__file__)))

HOOK_COMMITS = ["424d91d", "9dba8ee", "9908f96"]

# property -> (engine, category, technique, text, note, design_ref)
CHECKS = {
 "C10": ("eyesim", "exploration",
         "deterministic simulation: EyeballSet over scripted attempts in virtual time; small grids enumerated, larger ones by seeded search; predicate oracle over recorded start/finish instants",
         "Every configuration with N<=2 (quick) / N<=3 (thorough) candidates on the outcome x latency x delay x timeout x concurrency grid is executed, plus seeded random cases up to N=6 with off-grid values; the result is checked against predicates over the scripted outcomes and the instants the real code started each attempt. Exploration, not proof: beyond the enumerated grid it samples.",
         "trusts tokio's paused clock / timer ordering and FuturesUnordered; attempts are scripted futures, TcpConnecting's sockets are not run",
         "DESIGN.md 5 (C10), 4.C"),
 "C11": ("eyesim", "exploration",
         "deterministic simulation: same runs as C10; recorded first-poll / completion / drop instants compared with a reference pacing model (exact until the first same-millisecond tie)",
         "Start order, at-most-once, initial batch size, earliest-legal-start = min(last start + stagger, next failure), nothing after the result, overall deadline, all attempts dropped at completion; grid enumerated for small N and sampled above.",
         "ties between a success, a failure and a stagger tick in the same millisecond are not judged (either order is legal); initial concurrency 0 is treated as 1 (something must start for progress)",
         "DESIGN.md 5 (C11), 4.C"),
}

POOL_NOTE = "stub transport/protocol/connection (SimConn models HttpConnection: is_open = open && (h2 || !busy), can_share = h2); unit of interleaving = one poll/drop of one future; tokio current-thread scheduler and paused clock trusted"
POOL_TECH = "deterministic simulation: the real pool between stub endpoints, seeded step lists (issue/poll/cancel/dial/handshake/respond/close/background/clock) with fault injection, drain + probe phases; invariants at every hand-off and history checks; delta-debugged replay files"
def pool(text, ref):
    return ("poolsim", "exploration", POOL_TECH, text + " Seeded search over schedules and fault sequences, not enumeration: a clean batch is evidence, not proof.", POOL_NOTE, ref)
CHECKS.update({
 "C02": pool("At every hand-off of an HTTP/1 connection: no other holder, not busy since its previous exchange, not taken over by an upgrade, exactly one live handle.", "DESIGN.md 5 (C02), 4.A"),
 "C03": pool("After a fault-free drain (all dials/handshakes/responses resolved, background quiescent, only woken futures polled) every non-cancelled request must be ready; a forced poll distinguishes lost wake-ups from stranded requests; a probe request per origin must then succeed.", "DESIGN.md 5 (C03), 4.A"),
 "C04": pool("Every transport connect call is attributed to its request and classified from the state at that request's issue step: idle connection present at a quiescent point, HTTP/2 attempt in flight, HTTP/2 connection established; cancelling an unserved request must not destroy idle connections. Ambiguous competition is not judged.", "DESIGN.md 5 (C04), 4.A"),
 "C05": pool("At every hand-off of a pooled connection: not closed before the request was issued nor before its hand-back; not idle longer than idle_timeout at the issue instant (virtual clock via hook H2), for idle durations on both sides of the limit.", "DESIGN.md 5 (C05), 4.A"),
 "C06": pool("At every hand-off the (scheme, authority) the connection was dialed for equals the request's, over 2-4 origins that differ only in scheme, port, case or host, with waiters and idle connections alive for several at once.", "DESIGN.md 5 (C06), 4.A"),
 "C14": pool("After each hand-back / HTTP/2 registration the first request with a provably live waiter must be handed that connection at its very next poll; abandoned attempts complete into the pool (continue_after_preemption) or are dropped at once (otherwise).", "DESIGN.md 5 (C14), 4.A"),
 "C15": pool("After every step: open idle HTTP/1 connections retained per origin, minus those a pending request could be holding, never exceeds max_idle_per_host in {0,1,2,k-1,k,k+1}.", "DESIGN.md 5 (C15), 4.A"),
 "C17": pool("Panic monitor (process-wide hook + catch_unwind around every call/poll/drop + background tasks) over step lists that include every http::Version constant, upgrades, cancels, service drop.", "DESIGN.md 5 (C17)"),
 "C18": ("iosim", "exploration",
         "deterministic simulation: writer/reader scripts over each adapter stack on SimNet (seeded chunking, Pending injection, virtual delays, pipe capacity, EOF/reset at byte offsets) compared with a reference FIFO",
         "TokioIo in both directions, Rewind, client/server braid Stream (plain and TLS arms), duplex transport: bytes received are always a prefix of the position-indexed reference stream, nothing beyond what was offered, EOF after shutdown, resets surface as errors, read-buffer contract (pre-filled bytes untouched, no over-report). Seeded search.",
         "Braid TCP/Unix arms need kernel sockets and are not run; TLS runs with >=32 KiB pipe capacity (smaller socket buffers deadlock any TLS handshake); an endpoint is not used again after it returned an error",
         "DESIGN.md 5 (C18), 4.D"),
 "C19": ("timersim+poolsim", "exploration",
         "deterministic simulation in virtual time: Timeout layer over a scripted inner future (grid enumerated) and over the real pool (deadline landing in every stage of a pooled request), with a follow-up probe",
         "Resolves at issue+d with the timeout error unless the inner future was ready first (tie: either), inner result unchanged, inner future dropped at resolution and never polled again; over the pool: no hand-off after expiry, probe request to the same origin succeeds.",
         "tokio paused clock trusted; same stubs as the other pool checks",
         "DESIGN.md 5 (C19), 4.A, 4.E"),
})

NOT_APPLICABLE = {
 "C16": "pure function of an address list and a preference (SocketAddrs::sort_preferred / set_port): no schedule, clock, fault or I/O for a simulator to own; the start-order clause is the C11 start-order rule composed with a FIFO pop; the end-to-end variant needs kernel sockets, which have no seam. See DESIGN.md 6.",
 "C20": "pure function of one request and one TlsConnectionInfo (sni::handle): quantifier over inputs only, nothing for deterministic simulation to schedule or fault. See DESIGN.md 6.",
}

PENDING = "check not built yet in this round (planned, see DESIGN.md 5); not claimed until it runs"
ALL = ["C%02d" % i for i in range(1, 21)]

def main():
    checks = []
    for pid in ALL:
        if pid not in CHECKS:
            continue
        engine, cat, technique, text, note, ref = CHECKS[pid]
        checks.append({
            "property_id": pid,
            "quick_cmd": "./check %s quick" % pid,
            "thorough_cmd": "./check %s thorough" % pid,
            "evidence_file": "/verif/evidence/%s.json" % pid,
            "replay_cmd_template": "./check %s --replay {path}" % pid,
            "engine": engine,
            "level_claimed": {"category": cat, "text": text, "design_ref": ref},
            "level_note": note,
            "technique": technique,
        })
    na = []
    for pid in ALL:
        if pid in CHECKS:
            continue
        na.append({"property_id": pid, "reason": NOT_APPLICABLE.get(pid, PENDING)})
    engines = {}
    for pid, c in CHECKS.items():
        engines.setdefault(c[0], []).append(pid)
    m = {
        "version": 1,
        "setup_cmd": "cd /verif/sim && CARGO_NET_OFFLINE=true cargo build --offline --profile sim",
        "hooks": {
            "guard": "cargo feature `verif-hooks` of hyperdriver (off by default)",
            "enable": "the simulator crate /verif/sim depends on hyperdriver by path (/repo) with features client,server,stream,tls,tls-ring,sni,verif-hooks; ./check rebuilds it before every run",
            "baseline_off_cmd": "cd /repo && cargo test --workspace --no-fail-fast --offline",
            "source_commits": HOOK_COMMITS,
            "add_only": False,
        },
        "engines": [{"name": k, "path": "/verif/sim/src", "serves_properties": sorted(v),
                     "kind_free_text": "deterministic simulation with fault injection (seeded, replayable, virtual time)"} for k, v in sorted(engines.items())],
        "checks": checks,
        "not_applicable": na,
        "notes": "All checks are `./check <id> quick|thorough`; VERIF_SEED selects the batch seed (default 0x5EED2026). Exit 0 held / 1 VIOLATION (replay file under /verif/replays) / 2 harness error. Known findings: /verif/known_findings.json.",
    }
    path = os.path.join(ROOT, "MANIFEST.json")
    json.dump(m, open(path, "w"), indent=1)
    try:
        import jsonschema
        jsonschema.validate(m, json.load(open("/root/.vp/MANIFEST.schema.json")))
        print("MANIFEST.json valid;", len(checks), "checks,", len(na), "not claimed")
    except ImportError:
        print("jsonschema not available; wrote without validating")

if __name__ == "__main__":
    main()
