#!/bin/bash
export VERIF_EVIDENCE_DIR=/verif/target/scratch-evidence  # never touch the committed evidence
# usage: run_seeded.sh <patch.diff> <prop> [<prop> ...]  -- apply a seeded change to /repo, run the quick checks, undo it
set -u
PATCH=$1; shift
cd /verif
git -C /repo apply "$PATCH" || { echo "patch does not apply"; exit 2; }
# (rebuild after restoring: tools that use target/sim/hdsim directly must never find a binary built from a changed tree)
trap 'git -C /repo checkout -- . ; rm -f /verif/replays/*seededtmp*; (cd /verif/sim && cargo build --offline --profile sim >/dev/null 2>&1)' EXIT
for P in "$@"; do
  VERIF_REPLAY_TAG=seeded ./check $P ${MODE:-quick} 2>&1 | grep -E "^(VIOLATION|  rule=|hdsim:|KNOWN)" | cut -c1-400
done
