#!/usr/bin/env python3
import json, sys, glob, jsonschema
schema = json.load(open("/root/.vp/EVIDENCE.schema.json"))
ok = True
for p in sorted(glob.glob("/verif/evidence/*.json")):
    try:
        jsonschema.validate(json.load(open(p)), schema)
        print("ok  ", p)
    except Exception as e:
        ok = False
        print("BAD ", p, str(e)[:300])
sys.exit(0 if ok else 1)
