#!/bin/sh
export VERIF_EVIDENCE_DIR=/verif/target/scratch-evidence  # never touch the committed evidence
# usage: tools/try_mutant.sh <patchfile|-e 'sed-expr' file> -- <PROP> [runs]
# Applies a change to /repo, runs the check, reverts. Development helper, not a registered check.
set -u
if [ "$1" = "-e" ]; then
  sed -i "$2" "/repo/$3"; shift 3
else
  git -C /repo apply "$1" || exit 3; shift 1
fi
[ "$1" = "--" ] && shift
PROP=$1; RUNS=${2:-}
git -C /repo diff --stat | tail -1
(cd /verif/sim && cargo build --offline --profile sim 2>&1 | grep -E "^error" -A8)
if [ -n "$RUNS" ]; then /verif/target/sim/hdsim check $PROP --runs $RUNS | cut -c1-300; else /verif/target/sim/hdsim check $PROP | cut -c1-300; fi
echo "exit=$?"
git -C /repo checkout -- .
