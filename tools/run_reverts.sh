#!/bin/bash
export VERIF_EVIDENCE_DIR=/verif/target/scratch-evidence  # never touch the committed evidence
# Reverts each `fix:` commit of /repo in the working tree (git apply -R), runs the quick check of the
# property it repaired, restores the tree. CAUGHT = the original defect is detected again.
cd /verif
while read h p; do
  git -C /repo show $h -- src | git -C /repo apply -R 2>/dev/null || { echo "$h $p REVERT-DOES-NOT-APPLY (later fixes build on it)"; continue; }
  out=$(./check $p quick 2>&1); rc=$?
  git -C /repo checkout -- .
  rules=$(echo "$out" | grep -o "rule=[a-z_0-9]*" | sort | uniq -c | awk '{printf "%s(x%s) ", $2, $1}')
  if [ $rc -eq 1 ]; then echo "$h $p CAUGHT $rules"; elif [ $rc -eq 0 ]; then echo "$h $p MISSED"; else echo "$h $p rc=$rc $(echo "$out" | grep -m1 -E 'HARNESS|error')"; fi
  rm -f replays/$p-*
done <<LIST
96ed6b4 C15
9032b10 C14
1112b96 C03
99beaaa C04
0f4628c C04
857324f C05
eea1367 C17
e817384 C03
b00c038 C08
09ef7a7 C09
ec5f710 C12
8c7966b C17
ed99402 C03
4ce3cba C12
27b538b C09
c86b24e C13
25a3181 C17
85e24c5 C03
66bab97 C19
LIST
(cd sim && cargo build --offline --profile sim >/dev/null 2>&1)
