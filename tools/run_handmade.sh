#!/bin/bash
export VERIF_EVIDENCE_DIR=/verif/target/scratch-evidence  # never touch the committed evidence
# Hand-made single-line changes (sed) against the quick check of the property they break.
cd /verif
export VERIF_ROOT=/verif
run() { # name | file | sed expr | property
  local name="$1" file="$2" expr="$3" prop="$4"
  sed -i "$expr" /repo/$file
  if git -C /repo diff --quiet; then echo "$prop NO-CHANGE  $name"; return; fi
  out=$(./check $prop quick 2>&1); rc=$?
  git -C /repo checkout -- .
  rules=$(echo "$out" | grep -o "rule=[a-z_0-9]*" | sort | uniq -c | awk '{printf "%s(x%s) ", $2, $1}')
  if [ $rc -eq 1 ]; then echo "$prop CAUGHT  $name :: $rules"; else echo "$prop rc=$rc  $name :: $(echo "$out" | grep -m1 -E '^error|HARNESS')"; fi
  rm -f replays/$prop-*
}
run "every ended checkout clears the in-flight marker"      src/client/pool/checkout.rs 's/} else if self.owns_connecting {/} else if true {/' C04
run "unused popped connection not returned on drop"         src/client/pool/checkout.rs 's/            if !connection.can_share() {/            if false \&\& !connection.can_share() {/' C04
run "shared handle leaves the pool when popped"             src/client/pool/mod.rs      's/if let Some(shared) = connection.reuse() {/if let Some(shared) = None::<C> {/' C04
run "released waiter does not re-register"                  src/client/pool/checkout.rs 's/WaitingPoll::Closed if waiting_on_attempt => {/WaitingPoll::Closed if waiting_on_attempt \&\& false => {/' C04
run "eyeballs keeps the last error instead of the first"    src/happy_eyeballs.rs       's/Some(Err(e)) if self.error.is_none() => {/Some(Err(e)) if true => {/' C10
run "idle timeout ignored in pop"                           src/client/pool/idle.rs     's/if exipred.map(|expired| entry.at < expired).unwrap_or(false) {/if false {/' C05
run "pop does not look at is_open"                          src/client/pool/idle.rs     's/                if entry.inner.is_open() {/                if true {/' C05
run "WhenReady::drop pushes without is_open"                src/client/pool/mod.rs      's/if connection.is_open() \&\& !self.token.is_zero() {/if !self.token.is_zero() {/' C05
run "WhenReady::drop pushes without is_open (C02 view)"     src/client/pool/mod.rs      's/if connection.is_open() \&\& !self.token.is_zero() {/if !self.token.is_zero() {/' C02
run "TokioIo::poll_read sets filled to the sub-buffer only" src/bridge/io.rs            's/tbuf.set_filled(n_filled);/tbuf.set_filled(sub_filled);/' C18
run "Rewind forgets the rest of a partly delivered prefix"  src/rewind.rs               's/                    self.prefix = Some(prefix);/                    let _ = prefix;/' C18
run "Timeout sleeps 1 ms longer"                            src/service/timeout.rs      's/timeout: tokio::time::sleep(timeout),/timeout: tokio::time::sleep(timeout + std::time::Duration::from_millis(1)),/' C19
run "graceful_shutdown not forwarded to the connection"     src/server/conn/drivers.rs  's/                        .graceful_shutdown();/                        .as_ref();/' C07
run "addresses popped from the back"                        src/client/conn/dns.rs      's/        self.0.pop_front()/        self.0.pop_back()/' C11
run "URI port not applied to resolved addresses"            src/client/conn/transport/tcp.rs 's/        addrs.set_port(port);/        let _ = port;/' C10
run "tcp vectored write reports more than it wrote"         src/stream/tcp.rs           's/        self.project().stream.poll_write_vectored(cx, bufs)/        let total: usize = bufs.iter().map(|b| b.len()).sum(); match self.project().stream.poll_write(cx, bufs.first().map(|b| \&b[..]).unwrap_or(\&[])) { Poll::Ready(Ok(_)) => Poll::Ready(Ok(total)), o => o }/' C18
(cd sim && cargo build --offline --profile sim >/dev/null 2>&1)
