#!/bin/bash
export VERIF_EVIDENCE_DIR=/verif/target/scratch-evidence  # never touch the committed evidence
# Runs every seeded change under /verif/seeded against the quick check of the property it breaks.
# Prints one line per change: CAUGHT (exit 1 + VIOLATION) or MISSED. /repo is restored after each.
cd /verif
for d in seeded/C*/; do
  id=$(basename $d)
  git -C /repo apply $PWD/$d/patch.diff || { echo "$id PATCH-DOES-NOT-APPLY"; continue; }
  prop=${id:0:3}; out=$(timeout 1500 ./check $prop ${MODE:-quick} 2>&1); rc=$?
  git -C /repo checkout -- .
  rules=$(echo "$out" | grep -o "rule=[a-z_0-9]*" | sort | uniq -c | awk '{printf "%s(x%s) ", $2, $1}')
  if [ $rc -eq 1 ]; then echo "$id CAUGHT $rules"; else echo "$id MISSED rc=$rc"; fi
  rm -f replays/$prop-*
done
# rebuild against the restored tree so later commands start from a clean build
(cd sim && cargo build --offline --profile sim >/dev/null 2>&1)
