#!/bin/sh
# Generates the TLS fixtures used by the simulator (run once; outputs are committed).
# The simulator verifies certificates against a fixed simulated wall clock (2030-06-01), see sim/src/tlsfix.rs.
set -e
cd "$(dirname "$0")"
openssl genrsa -out ca.key 2048 2>/dev/null
openssl req -x509 -new -key ca.key -sha256 -days 36500 -subj "/CN=hdsim test CA" -out ca.pem \
  -addext "basicConstraints=critical,CA:TRUE" -addext "keyUsage=critical,keyCertSign,cRLSign"
openssl genrsa -out ca2.key 2048 2>/dev/null
openssl req -x509 -new -key ca2.key -sha256 -days 36500 -subj "/CN=hdsim untrusted CA" -out ca2.pem \
  -addext "basicConstraints=critical,CA:TRUE" -addext "keyUsage=critical,keyCertSign,cRLSign"
leaf() { # name san cakey capem extra
  openssl genrsa -out $1.key 2048 2>/dev/null
  openssl req -new -key $1.key -subj "/CN=$1" -out $1.csr
  printf "subjectAltName=$2\nbasicConstraints=CA:FALSE\nkeyUsage=digitalSignature,keyEncipherment\nextendedKeyUsage=serverAuth\n" > $1.ext
  openssl x509 -req -in $1.csr -CA $4 -CAkey $3 -CAcreateserial -out $1.pem -sha256 -extfile $1.ext $5 2>/dev/null
  rm -f $1.csr $1.ext
}
leaf good "DNS:sim.test,DNS:a.test,DNS:b.test,DNS:localhost,IP:127.0.0.1,IP:10.0.0.7,IP:::1" ca.key ca.pem "-days 36500"
leaf mismatch "DNS:other.test,IP:192.0.2.1" ca.key ca.pem "-days 36500"
leaf untrusted "DNS:sim.test,DNS:a.test,DNS:b.test,DNS:localhost,IP:127.0.0.1,IP:10.0.0.7,IP:::1" ca2.key ca2.pem "-days 36500"
# expired relative to the simulated clock (2030): valid for 365 days from now
leaf expired "DNS:sim.test,DNS:a.test,DNS:b.test,DNS:localhost,IP:127.0.0.1,IP:10.0.0.7,IP:::1" ca.key ca.pem "-days 365"
rm -f *.srl
